//! C06 — well-posed problems are actually solved, in few iterations.
//! The complete planted strictly-feasible family (no deviations) over every cone list of the
//! alphabet, default settings, plus a deterministic block-replicated extension up to n = 60.
//! The oracle is an aggregate over the *completely enumerated* family.

use super::sweep::planted;
use crate::dense::*;
use crate::problem::*;
use crate::solve::*;
use crate::util::*;
use clarabel::solver::SolverStatus;
use serde_json::{json, Value};

pub struct PlantedAll {
    pub lists: Vec<Vec<ConeSpec>>,
    pub label: String,
}

fn nvars_for(m: usize) -> usize {
    if m <= 1 {
        1
    } else if m <= 3 {
        2
    } else {
        3
    }
}

impl PlantedAll {
    fn per_list(&self, l: &[ConeSpec]) -> u64 {
        let n = nvars_for(cones_numel(l));
        3u64.pow(n as u32) * 2 * 2 * 3 * p_menu(n).len() as u64 * 2
    }
    fn decode(&self, mut id: u64) -> Prob {
        for l in &self.lists {
            let c = self.per_list(l);
            if id < c {
                let n = nvars_for(cones_numel(l));
                let mut d = Digits(id);
                let xid = d.take(3u64.pow(n as u32));
                let sw = d.take(2) as usize;
                let zw = d.take(2) as usize;
                let aw = d.take(3) as usize;
                let pm = p_menu(n);
                let p = d.pick(&pm).clone();
                let full = d.take(2) == 1;
                return planted(l, n, xid, sw, zw, aw, &p, full);
            }
            id -= c;
        }
        unreachable!()
    }
}

fn record(ctx: &mut Ctx, r: &Run) {
    ctx.outcome(status_name(r.status));
    ctx.outcome(&format!("iters={:03}", r.iterations));
    ctx.transitions += r.iterations as u64 + 1;
    if r.status == SolverStatus::Solved {
        ctx.nontrivial += 1;
    }
}

impl Space for PlantedAll {
    fn name(&self) -> String {
        format!("planted-all-{}", self.label)
    }
    fn size(&self) -> u64 {
        self.lists.iter().map(|l| self.per_list(l)).sum()
    }
    fn describe(&self, id: u64) -> Value {
        self.decode(id).to_json()
    }
    fn bound(&self) -> Value {
        json!({"cone_lists": self.lists.len(), "per_list": "all x* in {-1,0,1}^n, 2 s*, 2 z*, 3 A patterns, P menu, full/triu"})
    }
    fn run(&self, id: u64, ctx: &mut Ctx) -> CaseResult {
        let p = self.decode(id);
        let r = run_solver(&p, &SettingsSpec::default(), false).map_err(|e| Violation::new("panic-on-well-posed-problem", e))?;
        record(ctx, &r);
        // individual hard failures are violations on their own: a planted strictly feasible
        // pair has a solution, so an infeasibility verdict is simply wrong
        ensure!(
            !matches!(r.status, SolverStatus::PrimalInfeasible | SolverStatus::DualInfeasible | SolverStatus::AlmostPrimalInfeasible | SolverStatus::AlmostDualInfeasible),
            "infeasibility-verdict-on-strictly-feasible-problem",
            "{:?} on {}",
            r.status,
            p.to_json()
        );
        Ok(())
    }
}

/// block-replicated instances with one coupling row
pub struct Replicated {
    pub lists: Vec<Vec<ConeSpec>>,
    pub reps: Vec<usize>,
}
impl Replicated {
    fn per(&self) -> u64 {
        // x* in 3 choices, A pattern 3, P: zero / identity
        3 * 3 * 2
    }
    fn decode(&self, id: u64) -> Prob {
        let mut d = Digits(id);
        let li = d.take(self.lists.len() as u64) as usize;
        let r = *d.pick(&self.reps);
        let xsel = [0u64, 5, 13][d.take(3) as usize];
        let aw = d.take(3) as usize;
        let pid = d.take(2) as usize;
        let l = &self.lists[li];
        let nb = nvars_for(cones_numel(l));
        let pm = if pid == 0 { Dense::zeros(nb, nb) } else { Dense::eye(nb) };
        let blocks: Vec<Prob> = (0..r).map(|k| planted(l, nb, (xsel + k as u64) % 3u64.pow(nb as u32), k % 2, (k + 1) % 2, aw, &pm, false)).collect();
        let mb = cones_numel(l);
        let (n, m) = (nb * r, mb * r + 1);
        let mut a = Dense::zeros(m, n);
        let mut pmat = Dense::zeros(n, n);
        let mut q = vec![0.0; n];
        let mut b = vec![0.0; m];
        let mut cones = vec![];
        let mut xsum = 0.0;
        for (k, blk) in blocks.iter().enumerate() {
            for i in 0..mb {
                for j in 0..nb {
                    a.set(k * mb + i, k * nb + j, blk.a.at(i, j));
                }
                b[k * mb + i] = blk.b[i];
            }
            for i in 0..nb {
                for j in 0..nb {
                    pmat.set(k * nb + i, k * nb + j, blk.p.at(i, j));
                }
                q[k * nb + i] = blk.q[i];
            }
            cones.extend(blk.cones.clone());
            // recover x* of the block: digits of its id
            let mut dd = Digits((xsel + k as u64) % 3u64.pow(nb as u32));
            for _ in 0..nb {
                xsum += [0.0, 1.0, -1.0][dd.take(3) as usize];
            }
        }
        // coupling row: sum x <= sum x* + 1, slack 1 and multiplier 1 at the planted point
        for j in 0..n {
            a.set(m - 1, j, 1.0);
            q[j] -= 1.0;
        }
        b[m - 1] = xsum + 1.0;
        cones.push(ConeSpec::NN(1));
        Prob {
            n,
            m,
            p: pmat,
            p_full: false,
            q,
            a,
            b,
            cones,
        }
    }
}
impl Space for Replicated {
    fn name(&self) -> String {
        format!("replicated-{}lists", self.lists.len())
    }
    fn size(&self) -> u64 {
        self.lists.len() as u64 * self.reps.len() as u64 * self.per()
    }
    fn describe(&self, id: u64) -> Value {
        let p = self.decode(id);
        json!({"n": p.n, "m": p.m, "cones": p.cones.iter().map(|c| c.tag()).collect::<Vec<_>>(), "note": "block-replicated planted instance with one coupling row"})
    }
    fn bound(&self) -> Value {
        json!({"replications": self.reps, "lists": self.lists.len()})
    }
    fn run(&self, id: u64, ctx: &mut Ctx) -> CaseResult {
        let p = self.decode(id);
        let r = run_solver(&p, &SettingsSpec::default(), false).map_err(|e| Violation::new("panic-on-well-posed-problem", e))?;
        record(ctx, &r);
        ensure!(
            !matches!(r.status, SolverStatus::PrimalInfeasible | SolverStatus::DualInfeasible | SolverStatus::AlmostPrimalInfeasible | SolverStatus::AlmostDualInfeasible),
            "infeasibility-verdict-on-strictly-feasible-problem",
            "{:?} n={} m={}",
            r.status,
            p.n,
            p.m
        );
        Ok(())
    }
}

/// envelopes fixed once from the unchanged tree (with head-room); never re-fitted at run time
pub const MIN_SOLVED_FRACTION: f64 = 0.995;
pub const P95_ITERATIONS_MAX: u32 = 20;
pub const P999_ITERATIONS_MAX: u32 = 40;

/// aggregate oracle over the completed enumeration
pub fn post(pr: &mut PropRun) {
    let mut total = 0u64;
    let mut solved = 0u64;
    let mut hist: Vec<(u32, u64)> = vec![];
    let mut incomplete = false;
    for rep in &pr.reports {
        if !rep.complete {
            incomplete = true;
        }
        for (k, v) in &rep.ctx.outcomes {
            if let Some(it) = k.strip_prefix("iters=") {
                hist.push((it.parse().unwrap(), *v));
                total += v;
            } else if k == "Solved" {
                solved += v;
            }
        }
    }
    if total == 0 || incomplete {
        pr.notes.push("aggregate oracle skipped: enumeration incomplete".into());
        return;
    }
    hist.sort();
    let mut acc = 0u64;
    let mut p95 = 0u32;
    let mut p999 = 0u32;
    let mut maxit = 0u32;
    for (it, c) in &hist {
        if acc < (total as f64 * 0.95).ceil() as u64 {
            p95 = *it;
        }
        if acc < (total as f64 * 0.999).ceil() as u64 {
            p999 = *it;
        }
        acc += c;
        maxit = *it;
    }
    let frac = solved as f64 / total as f64;
    pr.notes.push(format!(
        "aggregate over {} enumerated well-posed instances: Solved fraction {:.5} (required >= {}), p95 iterations {} (<= {}), p99.9 iterations {} (<= {}), max iterations {} (reported only)",
        total, frac, MIN_SOLVED_FRACTION, p95, P95_ITERATIONS_MAX, p999, P999_ITERATIONS_MAX, maxit
    ));
    let mut fail = |key: &str, detail: String| {
        let v = Violation::new(key, detail);
        let path = write_replay(&pr.property, "aggregate", 0, json!({"aggregate": true}), &v);
        pr.new_violations.push(("aggregate".into(), 0, v, path));
    };
    if frac < MIN_SOLVED_FRACTION {
        fail("solved-fraction-below-envelope", format!("{:.5} < {}", frac, MIN_SOLVED_FRACTION));
    }
    if p95 > P95_ITERATIONS_MAX {
        fail("p95-iterations-above-envelope", format!("{} > {}", p95, P95_ITERATIONS_MAX));
    }
    if p999 > P999_ITERATIONS_MAX {
        fail("p999-iterations-above-envelope", format!("{} > {}", p999, P999_ITERATIONS_MAX));
    }
}

pub const ASSUMPTIONS: &[&str] = &[
    "the property is distributional over a random generator; what is decided here is the same statement over the completely enumerated planted lattice family (and its block-replicated extension to n=60), not over random dense data",
    "envelopes (Solved fraction >= 99.5%, p95 iterations <= 20 [measured 14], p99.9 <= 40 [measured 23]) were fixed once from the unchanged tree with head-room and are constants of the check",
];

pub fn spaces(tier: &str, _seed: u64) -> Vec<Box<dyn Space>> {
    let thorough = tier == "thorough";
    let atoms = atoms_core();
    let mut lists = if thorough { cone_lists(&atoms, 3, 1, 8) } else { cone_lists(&atoms, 2, 1, 6) };
    // several sparse-expanded cones in one problem (each alone is in the lists above)
    {
        use ConeSpec::*;
        lists.push(vec![SOC(5), SOC(5)]);
        lists.push(vec![SOC(6), NN(1), SOC(5)]);
        lists.push(vec![SOC(5), SOC(7), SOC(5)]);
        lists.push(vec![GenPow(vec![0.2, 0.3, 0.5], 2), GenPow(vec![0.5, 0.5], 1)]);
        lists.push(vec![SOC(5), GenPow(vec![0.5, 0.5], 1), SOC(6)]);
        lists.push(vec![PSD(2), SOC(5), Exp, SOC(5)]);
    }
    use ConeSpec::*;
    let rep_lists: Vec<Vec<ConeSpec>> = vec![
        vec![NN(2)],
        vec![Zero(1), NN(2)],
        vec![SOC(3)],
        vec![Exp],
        vec![Pow(0.5)],
        vec![NN(1), SOC(3)],
        vec![PSD(2)],
        vec![GenPow(vec![0.5, 0.5], 1)],
        vec![SOC(5)],
    ];
    vec![
        Box::new(PlantedAll { lists, label: if thorough { "L3M8".into() } else { "L2M6".into() } }),
        Box::new(Replicated { lists: rep_lists, reps: if thorough { vec![2, 5, 10, 20] } else { vec![2, 5, 10] } }),
    ]
}
