//! C06 — well-posed problems are actually solved, in few iterations.
//! The complete planted strictly-feasible family (no deviations) over every cone list of the
//! alphabet, default settings, plus a deterministic block-replicated extension up to n = 60.
//! The oracle is an aggregate over the *completely enumerated* family.

use super::sweep::planted;
use crate::dense::*;
use crate::problem::*;
use crate::solve::*;
use crate::util::*;
use clarabel::solver::SolverStatus;
use serde_json::{json, Value};

pub struct PlantedAll {
    pub lists: Vec<Vec<ConeSpec>>,
    pub label: String,
    /// (objective scale k, magnitude beta): P,q are multiplied by k; q and b by beta. Both maps send a strictly
    /// feasible primal-dual pair to a strictly feasible pair (x*,s* scale by beta, z* by k*beta), so the
    /// transformed instance is in the family G as long as entries stay within 1e3
    pub scales: Vec<(f64, f64)>,
}

fn nvars_for(m: usize) -> usize {
    if m <= 1 {
        1
    } else if m <= 3 {
        2
    } else {
        3
    }
}

impl PlantedAll {
    fn per_list(&self, l: &[ConeSpec]) -> u64 {
        let n = nvars_for(cones_numel(l));
        3u64.pow(n as u32) * 2 * 2 * 3 * p_menu(n).len() as u64 * 2
    }
    fn decode(&self, id: u64) -> Prob {
        let per: u64 = self.lists.iter().map(|l| self.per_list(l)).sum();
        let (k, beta) = self.scales[(id / per) as usize];
        let mut p = self.decode_base(id % per);
        for v in p.q.iter_mut() {
            *v *= k * beta;
        }
        for v in p.p.a.iter_mut() {
            *v *= k;
        }
        for v in p.b.iter_mut() {
            *v *= beta;
        }
        p
    }
    fn decode_base(&self, mut id: u64) -> Prob {
        for l in &self.lists {
            let c = self.per_list(l);
            if id < c {
                let n = nvars_for(cones_numel(l));
                let mut d = Digits(id);
                let xid = d.take(3u64.pow(n as u32));
                let sw = d.take(2) as usize;
                let zw = d.take(2) as usize;
                let aw = d.take(3) as usize;
                let pm = p_menu(n);
                let p = d.pick(&pm).clone();
                let full = d.take(2) == 1;
                return planted(l, n, xid, sw, zw, aw, &p, full);
            }
            id -= c;
        }
        unreachable!()
    }
}

fn record(ctx: &mut Ctx, r: &Run, pop: &str) {
    ctx.outcome(status_name(r.status));
    ctx.outcome(&format!("pop:{}:iters={:03}", pop, r.iterations));
    if r.status == SolverStatus::Solved {
        ctx.outcome(&format!("pop:{}:Solved", pop));
    }
    ctx.transitions += r.iterations as u64 + 1;
    if r.status == SolverStatus::Solved {
        ctx.nontrivial += 1;
    }
}

impl Space for PlantedAll {
    fn name(&self) -> String {
        format!("planted-all-{}", self.label)
    }
    fn size(&self) -> u64 {
        self.lists.iter().map(|l| self.per_list(l)).sum::<u64>() * self.scales.len() as u64
    }
    fn describe(&self, id: u64) -> Value {
        self.decode(id).to_json()
    }
    fn bound(&self) -> Value {
        json!({"cone_lists": self.lists.len(), "per_list": "all x* in {-1,0,1}^n, 2 s*, 2 z*, 3 A patterns, P menu, full/triu", "(objective scale, magnitude)": self.scales})
    }
    fn run(&self, id: u64, ctx: &mut Ctx) -> CaseResult {
        let p = self.decode(id);
        let r = run_solver(&p, &SettingsSpec::default(), false).map_err(|e| Violation::new("panic-on-well-posed-problem", e))?;
        let genpow = p.cones.iter().any(|c| matches!(c, ConeSpec::GenPow(_, _)));
        record(ctx, &r, if self.scales.len() == 1 { "base" } else if genpow { "scaled-genpow" } else { "scaled" });
        if std::env::var("VERIF_C06_STRICT").is_ok() {
            // debugging aid: every instance that is not Solved becomes a replayable case
            ensure!(r.status == SolverStatus::Solved, &format!("debug-not-solved:{}", status_name(r.status)), "{}", p.to_json());
        }
        // individual hard failures are violations on their own: a planted strictly feasible
        // pair has a solution, so an infeasibility verdict is simply wrong
        ensure!(
            !matches!(r.status, SolverStatus::PrimalInfeasible | SolverStatus::DualInfeasible | SolverStatus::AlmostPrimalInfeasible | SolverStatus::AlmostDualInfeasible),
            "infeasibility-verdict-on-strictly-feasible-problem",
            "{:?} on {}",
            r.status,
            p.to_json()
        );
        Ok(())
    }
}

/// block-replicated instances with one coupling row
pub struct Replicated {
    pub lists: Vec<Vec<ConeSpec>>,
    pub reps: Vec<usize>,
}
impl Replicated {
    fn per(&self) -> u64 {
        // x* in 3 choices, A pattern 3, P: zero / identity
        3 * 3 * 2
    }
    fn decode(&self, id: u64) -> Prob {
        let mut d = Digits(id);
        let li = d.take(self.lists.len() as u64) as usize;
        let r = *d.pick(&self.reps);
        let xsel = [0u64, 5, 13][d.take(3) as usize];
        let aw = d.take(3) as usize;
        let pid = d.take(2) as usize;
        let l = &self.lists[li];
        let nb = nvars_for(cones_numel(l));
        let pm = if pid == 0 { Dense::zeros(nb, nb) } else { Dense::eye(nb) };
        let blocks: Vec<Prob> = (0..r).map(|k| planted(l, nb, (xsel + k as u64) % 3u64.pow(nb as u32), k % 2, (k + 1) % 2, aw, &pm, false)).collect();
        let mb = cones_numel(l);
        let (n, m) = (nb * r, mb * r + 1);
        let mut a = Dense::zeros(m, n);
        let mut pmat = Dense::zeros(n, n);
        let mut q = vec![0.0; n];
        let mut b = vec![0.0; m];
        let mut cones = vec![];
        let mut xsum = 0.0;
        for (k, blk) in blocks.iter().enumerate() {
            for i in 0..mb {
                for j in 0..nb {
                    a.set(k * mb + i, k * nb + j, blk.a.at(i, j));
                }
                b[k * mb + i] = blk.b[i];
            }
            for i in 0..nb {
                for j in 0..nb {
                    pmat.set(k * nb + i, k * nb + j, blk.p.at(i, j));
                }
                q[k * nb + i] = blk.q[i];
            }
            cones.extend(blk.cones.clone());
            // recover x* of the block: digits of its id
            let mut dd = Digits((xsel + k as u64) % 3u64.pow(nb as u32));
            for _ in 0..nb {
                xsum += [0.0, 1.0, -1.0][dd.take(3) as usize];
            }
        }
        // coupling row: sum x <= sum x* + 1, slack 1 and multiplier 1 at the planted point
        for j in 0..n {
            a.set(m - 1, j, 1.0);
            q[j] -= 1.0;
        }
        b[m - 1] = xsum + 1.0;
        cones.push(ConeSpec::NN(1));
        Prob {
            n,
            m,
            p: pmat,
            p_full: false,
            q,
            a,
            b,
            cones,
        }
    }
}
impl Space for Replicated {
    fn name(&self) -> String {
        format!("replicated-{}lists", self.lists.len())
    }
    fn size(&self) -> u64 {
        self.lists.len() as u64 * self.reps.len() as u64 * self.per()
    }
    fn describe(&self, id: u64) -> Value {
        let p = self.decode(id);
        json!({"n": p.n, "m": p.m, "cones": p.cones.iter().map(|c| c.tag()).collect::<Vec<_>>(), "note": "block-replicated planted instance with one coupling row"})
    }
    fn bound(&self) -> Value {
        json!({"replications": self.reps, "lists": self.lists.len()})
    }
    fn run(&self, id: u64, ctx: &mut Ctx) -> CaseResult {
        let p = self.decode(id);
        let r = run_solver(&p, &SettingsSpec::default(), false).map_err(|e| Violation::new("panic-on-well-posed-problem", e))?;
        record(ctx, &r, "base");
        ensure!(
            !matches!(r.status, SolverStatus::PrimalInfeasible | SolverStatus::DualInfeasible | SolverStatus::AlmostPrimalInfeasible | SolverStatus::AlmostDualInfeasible),
            "infeasibility-verdict-on-strictly-feasible-problem",
            "{:?} n={} m={}",
            r.status,
            p.n,
            p.m
        );
        Ok(())
    }
}

/// envelopes fixed once from the unchanged tree (with head-room); never re-fitted at run time
pub const MIN_SOLVED_FRACTION: f64 = 0.995;
pub const P95_ITERATIONS_MAX: u32 = 20;
pub const P999_ITERATIONS_MAX: u32 = 40;

/// aggregate oracle over the completed enumeration, per population
pub fn post(pr: &mut PropRun) {
    if pr.reports.iter().any(|r| !r.complete) {
        pr.notes.push("aggregate oracle skipped: enumeration incomplete".into());
        return;
    }
    let findings = load_findings();
    for pop in ["base", "scaled", "scaled-genpow"] {
        let mut total = 0u64;
        let mut solved = 0u64;
        let mut hist: Vec<(u32, u64)> = vec![];
        for rep in &pr.reports {
            for (k, v) in &rep.ctx.outcomes {
                let Some(rest) = k.strip_prefix(&format!("pop:{}:", pop)) else { continue };
                if let Some(it) = rest.strip_prefix("iters=") {
                    hist.push((it.parse().unwrap(), *v));
                    total += v;
                } else if rest == "Solved" {
                    solved += v;
                }
            }
        }
        if total == 0 {
            continue;
        }
        hist.sort();
        let (mut acc, mut p95, mut p999, mut maxit) = (0u64, 0u32, 0u32, 0u32);
        for (it, c) in &hist {
            if acc < (total as f64 * 0.95).ceil() as u64 {
                p95 = *it;
            }
            if acc < (total as f64 * 0.999).ceil() as u64 {
                p999 = *it;
            }
            acc += c;
            maxit = *it;
        }
        let frac = solved as f64 / total as f64;
        pr.notes.push(format!(
            "population '{}': {} enumerated well-posed instances, Solved fraction {:.5} (required >= {}), p95 iterations {} (<= {}), p99.9 iterations {} (<= {}, base population only), max iterations {} (reported only)",
            pop, total, frac, MIN_SOLVED_FRACTION, p95, P95_ITERATIONS_MAX, p999, P999_ITERATIONS_MAX, maxit
        ));
        let mut fails: Vec<(String, String)> = vec![];
        if frac < MIN_SOLVED_FRACTION {
            // the known finding covers the measured band only: a collapse of the rate is a different violation
            let key = if pop == "scaled-genpow" && frac < GENPOW_SCALED_FLOOR { "solved-fraction-collapsed".to_string() } else { "solved-fraction-below-envelope".to_string() };
            fails.push((format!("{}:{}", key, pop), format!("{:.5} < {}", frac, MIN_SOLVED_FRACTION)));
        }
        if pop != "scaled-genpow" && p95 > P95_ITERATIONS_MAX {
            fails.push((format!("p95-iterations-above-envelope:{}", pop), format!("{} > {}", p95, P95_ITERATIONS_MAX)));
        }
        if pop == "base" && p999 > P999_ITERATIONS_MAX {
            fails.push((format!("p999-iterations-above-envelope:{}", pop), format!("{} > {}", p999, P999_ITERATIONS_MAX)));
        }
        for (key, detail) in fails {
            if let Some(f) = findings.iter().find(|f| f.property == pr.property && f.status == "known" && key.starts_with(&f.key)) {
                *pr.known_hits.entry(format!("{} ({})", f.what, f.key)).or_insert(0) += 1;
                continue;
            }
            let v = Violation::new(&key, detail);
            let path = write_replay(&pr.property, "aggregate", 0, json!({"aggregate": true, "population": pop}), &v);
            pr.new_violations.push(("aggregate".into(), 0, v, path));
        }
    }
}

/// below this Solved fraction the scaled generalised-power population is no longer the recorded finding
pub const GENPOW_SCALED_FLOOR: f64 = 0.85;

pub const ASSUMPTIONS: &[&str] = &[
    "the property is distributional over a random generator; what is decided here is the same statement over the completely enumerated planted lattice family (and its block-replicated extension to n=60), not over random dense data",
    "envelopes (Solved fraction >= 99.5% as the property states; p95 iterations <= 20 [measured 15 base / 12 scaled], p99.9 <= 40 [measured 32, base population]) were fixed once from the unchanged tree with head-room and are constants of the check",
    "three populations are judged separately: 'base' (the +-1 lattice family and its replicated extension), 'scaled' (the same family with the objective scaled by 1e2/1e-3/10 and the magnitudes of b,q scaled by 1e2/1e-3/30/10 -- maps that preserve strict primal-dual feasibility -- for cone lists without a generalised power cone) and 'scaled-genpow' (the scaled family for lists with a generalised power cone), for which the unchanged tree reaches only 95.7% Solved: an open known finding; below 85% it would be reported as a different violation",
];

pub fn spaces(tier: &str, _seed: u64) -> Vec<Box<dyn Space>> {
    let thorough = tier == "thorough";
    let atoms = atoms_core();
    let mut lists = if thorough { cone_lists(&atoms, 3, 1, 8) } else { cone_lists(&atoms, 2, 1, 6) };
    // several sparse-expanded cones in one problem (each alone is in the lists above)
    {
        use ConeSpec::*;
        lists.push(vec![SOC(5), SOC(5)]);
        lists.push(vec![SOC(6), NN(1), SOC(5)]);
        lists.push(vec![SOC(5), SOC(7), SOC(5)]);
        lists.push(vec![GenPow(vec![0.2, 0.3, 0.5], 2), GenPow(vec![0.5, 0.5], 1)]);
        lists.push(vec![SOC(5), GenPow(vec![0.5, 0.5], 1), SOC(6)]);
        lists.push(vec![PSD(2), SOC(5), Exp, SOC(5)]);
    }
    use ConeSpec::*;
    let rep_lists: Vec<Vec<ConeSpec>> = vec![
        vec![NN(2)],
        vec![Zero(1), NN(2)],
        vec![SOC(3)],
        vec![Exp],
        vec![Pow(0.5)],
        vec![NN(1), SOC(3)],
        vec![PSD(2)],
        vec![GenPow(vec![0.5, 0.5], 1)],
        vec![SOC(5)],
    ];
    vec![
        Box::new(PlantedAll { lists: lists.clone(), label: if thorough { "L3M8".into() } else { "L2M6".into() }, scales: vec![(1.0, 1.0)] }),
        // the same family at other magnitudes (entries up to 1e3, objectives up to ~1e7)
        Box::new(PlantedAll {
            lists: if thorough { cone_lists(&atoms, 2, 1, 6) } else { let mut l = cone_lists(&atoms, 1, 1, 6); l.extend(lists[lists.len() - 6..lists.len() - 1].iter().cloned()); l },
            label: "scaled".into(),
            scales: vec![(1e2, 1.0), (1e-3, 1.0), (1.0, 1e2), (1.0, 1e-3), (1.0, 30.0), (10.0, 10.0)],
        }),
        Box::new(Replicated { lists: rep_lists, reps: if thorough { vec![2, 5, 10, 20] } else { vec![2, 5, 10] } }),
    ]
}
