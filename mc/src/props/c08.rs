//! C08 — updating problem data in place is equivalent to rebuilding the solver.
//! Exhaustive exploration of operation histories (every sequence over a 35-letter alphabet of
//! update forms, valid and invalid, up to a depth) on several initial problems, with
//! equilibration on and off.  Reference model: four plain arrays.

use crate::dense::*;
use crate::problem::*;
use crate::solve::*;
use crate::util::*;
use clarabel::algebra::CscMatrix;
use clarabel::solver::*;
use serde_json::{json, Value};

#[derive(Clone, Copy, Debug, PartialEq)]
enum Comp {
    P,
    Q,
    A,
    B,
}

#[derive(Clone, Copy, Debug, PartialEq)]
enum Op {
    Whole(Comp, u8),   // full-length vector, value set 1|2
    Matrix(Comp),      // CscMatrix form (P, A), value set 1
    Partial1(Comp),    // one (index,value)
    Partial2(Comp),    // two (index,value) pairs
    Empty(Comp),       // empty update: no-op
    WrongLen(Comp),    // rejected, data untouched
    OutOfRange(Comp),  // partial with a valid first and an out-of-range second index: rejected
    Mismatch(Comp),    // matrix with a different pattern: rejected, data untouched
    MismatchMove(Comp), // same shape and column counts, one entry moved to another row of its column: rejected
    UpdateData,        // update_data(P: empty, q: set 2, A: set 1, b: empty)
    UpdateDataBad,     // update_data(P: set 1, q: wrong length, A: set 2, b: set 1) -> Err after P
    Solve,
}

fn alphabet() -> Vec<Op> {
    let mut v = vec![];
    // a drastic change of P (diagonal x 0.1, off-diagonal x 0.001 -- still PSD): a factorisation that silently kept
    // the old entries can no longer be rescued by iterative refinement
    v.push(Op::Whole(Comp::P, 3));
    for c in [Comp::P, Comp::A] {
        v.extend([Op::Whole(c, 1), Op::Whole(c, 2), Op::Matrix(c), Op::Partial1(c), Op::Partial2(c), Op::Empty(c), Op::WrongLen(c), Op::OutOfRange(c), Op::Mismatch(c), Op::MismatchMove(c)]);
    }
    for c in [Comp::Q, Comp::B] {
        v.extend([Op::Whole(c, 1), Op::Whole(c, 2), Op::Partial1(c), Op::Partial2(c), Op::Empty(c), Op::WrongLen(c), Op::OutOfRange(c)]);
    }
    v.extend([Op::UpdateData, Op::UpdateDataBad, Op::Solve]);
    v
}

/// reference model: the four data arrays in the solver's own index space
#[derive(Clone, Debug)]
struct Model {
    p0: CscMatrix<f64>, // triu pattern + current values
    a0: CscMatrix<f64>,
    q: Vec<f64>,
    b: Vec<f64>,
    unspecified: [bool; 4],
}

fn comp_idx(c: Comp) -> usize {
    match c {
        Comp::P => 0,
        Comp::Q => 1,
        Comp::A => 2,
        Comp::B => 3,
    }
}

fn base_problem(k: usize) -> Prob {
    use ConeSpec::*;
    match k {
        0 => Prob {
            n: 2,
            m: 4,
            p: Dense::from_rows(&[vec![4.0, 1.0], vec![1.0, 2.0]], 2),
            p_full: false,
            q: vec![40.0, -25.0],
            a: Dense::from_rows(&[vec![1.0, 0.0], vec![0.0, 1.0], vec![-1.0, 0.0], vec![0.0, -1.0]], 2),
            b: vec![1.0, 1.0, 1.0, 1.0],
            cones: vec![NN(2), NN(2)],
        },
        1 => Prob {
            n: 3,
            m: 5,
            p: Dense::from_rows(&[vec![2.0, 0.0, 1.0], vec![0.0, 1.0, 0.0], vec![1.0, 0.0, 3.0]], 3),
            p_full: true,
            q: vec![-30.0, 15.0, 60.0],
            a: Dense::from_rows(
                &[vec![1.0, 1.0, 0.0], vec![0.0, -1.0, 1.0], vec![0.0, 0.0, -1.0], vec![1.0, 0.0, 0.0], vec![0.0, 1.0, 0.0]],
                3,
            ),
            b: vec![2.0, 1.0, 3.0, 0.5, 0.25],
            cones: vec![NN(2), SOC(3)],
        },
        2 => Prob {
            n: 2,
            m: 4,
            p: Dense::zeros(2, 2),
            p_full: false,
            q: vec![1.0, 0.5],
            a: Dense::from_rows(&[vec![-1.0, 0.0], vec![0.0, 0.0], vec![0.0, -1.0], vec![1.0, 1.0]], 2),
            b: vec![0.0, 1.0, 0.0, 2.0],
            cones: vec![Exp, Zero(1)],
        },
        // runs of structurally empty columns in front of a stored entry (index -> column look-ups of the partial
        // forms), with column magnitudes that make the scaling factors of the columns differ
        4 => Prob {
            n: 4,
            m: 8,
            p: Dense::from_rows(&[vec![1.0, 0.0, 0.0, 0.0], vec![0.0; 4], vec![0.0; 4], vec![0.0, 0.0, 0.0, 2.0]], 4),
            p_full: false,
            q: vec![-3.0, 1.0, -2000.0, -9.0],
            a: Dense::from_rows(
                &[
                    vec![1.0, 0.0, 0.0, 0.0],
                    vec![-1.0, 0.0, 0.0, 0.0],
                    vec![0.0, 1.0, 0.0, 0.0],
                    vec![0.0, -1.0, 0.0, 0.0],
                    vec![0.0, 0.0, 1000.0, 0.0],
                    vec![0.0, 0.0, -1000.0, 0.0],
                    vec![0.0, 0.0, 0.0, 1.0],
                    vec![0.0, 0.0, 0.0, -1.0],
                ],
                4,
            ),
            b: vec![1.0, 1.0, 1.0, 1.0, 1000.0, 1000.0, 2.0, 2.0],
            cones: vec![NN(8)],
        },
        5 => Prob {
            n: 4,
            m: 4,
            p: Dense::from_rows(&[vec![1.0, 0.0, 0.0, 0.0], vec![0.0, 2.0, 0.0, 0.0], vec![0.0, 0.0, 1.0, 0.0], vec![0.0, 0.0, 0.0, 1e-4]], 4),
            p_full: false,
            q: vec![-3.0, 1.0, -2.0, -0.5],
            a: Dense::from_rows(&[vec![1.0, 0.0, 0.0, 0.0], vec![-1.0, 0.0, 0.0, 0.0], vec![0.0, 0.0, 0.0, 100.0], vec![0.0, 0.0, 0.0, -100.0]], 4),
            b: vec![1.0, 1.0, 200.0, 200.0],
            cones: vec![NN(4)],
        },
        _ => Prob {
            n: 3,
            m: 6,
            p: Dense::eye(3),
            p_full: false,
            q: vec![0.5, -1.0, 0.25],
            a: Dense::from_rows(
                &[vec![0.0, 0.0, -1.0], vec![1.0, 0.0, 0.0], vec![0.0, 1.0, 0.0], vec![1.0, -1.0, 0.0], vec![0.0, 0.5, 0.5], vec![1.0, 1.0, 1.0]],
                3,
            ),
            b: vec![3.0, 0.1, -0.2, 0.3, 0.0, 1.0],
            cones: vec![SOC(5), NN(1)],
        },
    }
}

pub struct Hist {
    pub depth: usize,
    pub base: usize,
    pub equil: bool,
    pub presolve_active: bool,
}

impl Hist {
    fn decode(&self, id: u64) -> Vec<Op> {
        let al = alphabet();
        let mut d = Digits(id);
        (0..self.depth).map(|_| *d.pick(&al)).collect()
    }
    fn problem(&self) -> Prob {
        let mut p = base_problem(self.base);
        if self.presolve_active {
            // an infinite bound in a nonnegative row activates the presolver
            p.b[0] = 1e20;
        }
        p
    }
    fn settings(&self) -> SettingsSpec {
        SettingsSpec {
            equilibrate_enable: self.equil,
            presolve_enable: self.presolve_active,
            ..Default::default()
        }
    }
}

fn set_values(orig: &[f64], comp: Comp, which: u8, diag: &[bool]) -> Vec<f64> {
    orig.iter()
        .enumerate()
        .map(|(k, &v)| match (comp, which) {
            (Comp::P, 1) => v * 1.5,
            (Comp::P, 3) => {
                if diag[k] {
                    v * 0.1
                } else {
                    v * 0.001
                }
            }
            (Comp::P, _) => {
                if diag[k] {
                    v + 1.0
                } else {
                    v * 0.5
                }
            }
            (Comp::A, 1) => v * (1.5 + 0.25 * (k % 2) as f64),
            (Comp::A, _) => v * 0.75,
            (Comp::Q, 1) => v * -0.5 + 0.25,
            (Comp::Q, _) => v * 8.0 + if k == 0 { 10.0 } else { -0.5 },
            (Comp::B, 1) => v + 0.5 * v.abs() + 0.25,
            (Comp::B, _) => v * 1.25 + 0.125,
        })
        .collect()
}

fn verdict_class(s: SolverStatus) -> &'static str {
    match s {
        SolverStatus::Solved | SolverStatus::AlmostSolved => "solved",
        SolverStatus::PrimalInfeasible | SolverStatus::AlmostPrimalInfeasible => "pinf",
        SolverStatus::DualInfeasible | SolverStatus::AlmostDualInfeasible => "dinf",
        _ => "other",
    }
}

fn releq(a: f64, b: f64, tol: f64) -> bool {
    a == b || (a - b).abs() <= tol * f64::max(a.abs(), b.abs())
}

impl Hist {
    /// compare the solver's internal data and KKT copy with the model
    fn check_sync(&self, solver: &DefaultSolver<f64>, model: &Model, after: &str) -> CaseResult {
        let eq = &solver.data.equilibration;
        let (d, e, c) = (&eq.d, &eq.e, eq.c);
        let tol = 16.0 * f64::EPSILON;
        let snap = solver.kktsystem.verif_snapshot().ok_or_else(|| Violation::new("machinery-no-kkt-snapshot", ""))?;
        if !model.unspecified[0] {
            let pm = &solver.data.P;
            ensure!(pm.is_equal_sparsity(&model.p0), "internal-P-pattern-changed", "after {}", after);
            for j in 0..pm.n {
                for k in pm.colptr[j]..pm.colptr[j + 1] {
                    let i = pm.rowval[k];
                    let want = c * d[i] * model.p0.nzval[k] * d[j];
                    ensure!(releq(pm.nzval[k], want, tol), "internal-P-out-of-sync", "after {}: P[{},{}]={:e} model (scaled) {:e}", after, i, j, pm.nzval[k], want);
                }
            }
            for (k, &idx) in snap.map_P.iter().enumerate() {
                ensure!(snap.kkt.nzval[idx].to_bits() == pm.nzval[k].to_bits(), "kkt-P-out-of-sync", "after {}: KKT[{}]={:e} data.P[{}]={:e}", after, idx, snap.kkt.nzval[idx], k, pm.nzval[k]);
            }
        }
        if !model.unspecified[2] {
            let am = &solver.data.A;
            ensure!(am.is_equal_sparsity(&model.a0), "internal-A-pattern-changed", "after {}", after);
            for j in 0..am.n {
                for k in am.colptr[j]..am.colptr[j + 1] {
                    let i = am.rowval[k];
                    let want = e[i] * model.a0.nzval[k] * d[j];
                    ensure!(releq(am.nzval[k], want, tol), "internal-A-out-of-sync", "after {}: A[{},{}]={:e} model (scaled) {:e}", after, i, j, am.nzval[k], want);
                }
            }
            for (k, &idx) in snap.map_A.iter().enumerate() {
                ensure!(snap.kkt.nzval[idx].to_bits() == am.nzval[k].to_bits(), "kkt-A-out-of-sync", "after {}: KKT[{}]={:e} data.A[{}]={:e}", after, idx, snap.kkt.nzval[idx], k, am.nzval[k]);
            }
        }
        if !model.unspecified[1] {
            for j in 0..model.q.len() {
                ensure!(releq(solver.data.q[j], c * d[j] * model.q[j], tol), "internal-q-out-of-sync", "after {}: q[{}]={:e} model {:e}", after, j, solver.data.q[j], c * d[j] * model.q[j]);
            }
        }
        if !model.unspecified[3] {
            for i in 0..model.b.len() {
                ensure!(releq(solver.data.b[i], e[i] * model.b[i], tol), "internal-b-out-of-sync", "after {}: b[{}]={:e} model {:e}", after, i, solver.data.b[i], e[i] * model.b[i]);
            }
        }
        Ok(())
    }

    fn model_problem(&self, model: &Model, base: &Prob) -> Prob {
        let ptri = csc_to_dense(&model.p0);
        Prob {
            n: base.n,
            m: base.m,
            p: ptri.sym_from_triu(),
            p_full: false,
            q: model.q.clone(),
            a: csc_to_dense(&model.a0),
            b: model.b.clone(),
            cones: base.cones.clone(),
        }
    }

    fn do_solve(&self, solver: &mut DefaultSolver<f64>, model: &Model, base: &Prob, ctx: &mut Ctx) -> CaseResult {
        clarabel::verif_hooks::observer_arm();
        let solved = guarded(|| solver.solve());
        let iters = clarabel::verif_hooks::observer_take();
        solved.map_err(|e| Violation::new("panic-in-solve-after-updates", e))?;
        ctx.transitions += 1;
        if model.unspecified.iter().any(|u| *u) {
            ctx.outcome("solve-with-unspecified-component");
            return Ok(());
        }
        let r = extract(solver, iters);
        let mp = self.model_problem(model, base);
        let ss = self.settings();
        let fresh = run_solver(&mp, &ss, false).map_err(|e| Violation::new("machinery-fresh-solver-panic", e))?;
        let (cu, cf) = (verdict_class(r.status), verdict_class(fresh.status));
        if cf == "other" {
            ctx.outcome("fresh-solver-inconclusive");
            return Ok(());
        }
        ensure!(cu == cf, "verdict-class-differs-from-fresh", "updated solver {:?} vs fresh {:?} on {}", r.status, fresh.status, mp.to_json());
        if cf == "solved" {
            let tol = 1e-6 * f64::max(1.0, fresh.obj_val.abs());
            ensure!((r.obj_val - fresh.obj_val).abs() <= tol, "objective-differs-from-fresh", "updated {} vs fresh {}", r.obj_val, fresh.obj_val);
            ensure!((r.obj_val_dual - fresh.obj_val_dual).abs() <= tol, "dual-objective-differs-from-fresh", "updated {} vs fresh {}", r.obj_val_dual, fresh.obj_val_dual);
        }
        // the result must be a truthful, certified result for the model data
        judge_c01(&mp, &ss, &r, 1e20)?;
        judge_c02(&mp, &ss, &r, 1e20)?;
        judge_c03(&mp, &ss, &r, 1e20)?;
        ctx.outcome(&format!("solve-agrees-{}", cf));
        ctx.nontrivial += 1;
        Ok(())
    }
}

impl Space for Hist {
    fn name(&self) -> String {
        format!(
            "update-histories-depth{}-base{}-{}{}",
            self.depth,
            self.base,
            if self.equil { "equil" } else { "noequil" },
            if self.presolve_active { "-presolve-active" } else { "" }
        )
    }
    fn size(&self) -> u64 {
        (alphabet().len() as u64).pow(self.depth as u32)
    }
    fn describe(&self, id: u64) -> Value {
        json!({"initial_problem": self.problem().to_json(), "settings": self.settings().to_json(),
               "ops": self.decode(id).iter().map(|o| format!("{:?}", o)).collect::<Vec<_>>(), "then": "Solve and compare with a freshly built solver on the model data"})
    }
    fn bound(&self) -> Value {
        json!({"depth": self.depth, "alphabet": alphabet().len(), "base": self.base, "equilibrate": self.equil, "presolve_active": self.presolve_active})
    }
    fn run(&self, id: u64, ctx: &mut Ctx) -> CaseResult {
        let ops = self.decode(id);
        let base = self.problem();
        let ss = self.settings();
        let mut solver = guarded(|| base.build(ss.build())).map_err(|e| Violation::new("panic-at-build", e))?;
        let p0 = base.p.triu().to_csc();
        let a0 = base.a.to_csc();
        let pdiag: Vec<bool> = {
            let mut v = vec![];
            for j in 0..p0.n {
                for k in p0.colptr[j]..p0.colptr[j + 1] {
                    v.push(p0.rowval[k] == j);
                }
            }
            v
        };
        let adiag = vec![false; a0.nnz()];
        let mut model = Model {
            p0: p0.clone(),
            a0: a0.clone(),
            q: base.q.clone(),
            b: base.b.clone(),
            unspecified: [false; 4],
        };
        if self.presolve_active {
            ensure!(!solver.is_data_update_allowed(), "presolve-active-but-updates-allowed", "");
        }
        let orig = model.clone();
        for (step, op) in ops.iter().enumerate() {
            ctx.transitions += 1;
            let before = (solver.data.P.nzval.clone(), solver.data.q.clone(), solver.data.A.nzval.clone(), solver.data.b.clone());
            let mut expect_ok = true;
            let mut touched_only: Option<Comp> = None; // component a *rejected* op may have partially modified
            let label = format!("op#{} {:?}", step, op);
            let res: Result<(), String> = match *op {
                Op::Whole(c, w) => {
                    let (o, dg): (&[f64], &[bool]) = match c {
                        Comp::P => (&orig.p0.nzval, &pdiag),
                        Comp::A => (&orig.a0.nzval, &adiag),
                        Comp::Q => (&orig.q, &adiag),
                        Comp::B => (&orig.b, &adiag),
                    };
                    let vals = set_values(o, c, w, dg);
                    let r = match c {
                        Comp::P => solver.update_P(&vals),
                        Comp::A => solver.update_A(&vals),
                        Comp::Q => solver.update_q(&vals),
                        Comp::B => solver.update_b(&vals),
                    };
                    if !self.presolve_active && !vals.is_empty() {
                        match c {
                            Comp::P => model.p0.nzval = vals.clone(),
                            Comp::A => model.a0.nzval = vals.clone(),
                            Comp::Q => model.q = vals.clone(),
                            Comp::B => model.b = vals.clone(),
                        }
                        model.unspecified[comp_idx(c)] = false;
                    }
                    r.map_err(|e| format!("{:?}", e))
                }
                Op::Matrix(c) => {
                    let (mut mat, dg) = match c {
                        Comp::P => (orig.p0.clone(), &pdiag),
                        _ => (orig.a0.clone(), &adiag),
                    };
                    mat.nzval = set_values(&mat.nzval.clone(), c, 1, dg);
                    let r = if c == Comp::P { solver.update_P(&mat) } else { solver.update_A(&mat) };
                    if !self.presolve_active {
                        if c == Comp::P {
                            model.p0.nzval = mat.nzval.clone();
                        } else {
                            model.a0.nzval = mat.nzval.clone();
                        }
                        model.unspecified[comp_idx(c)] = false;
                    }
                    r.map_err(|e| format!("{:?}", e))
                }
                Op::Partial1(c) | Op::Partial2(c) => {
                    let len = match c {
                        Comp::P => model.p0.nzval.len(),
                        Comp::A => model.a0.nzval.len(),
                        Comp::Q => model.q.len(),
                        Comp::B => model.b.len(),
                    };
                    if len == 0 {
                        // nothing to index: an empty tuple update is a no-op
                        let r = match c {
                            Comp::P => solver.update_P(&(Vec::<usize>::new(), Vec::<f64>::new())),
                            Comp::A => solver.update_A(&(Vec::<usize>::new(), Vec::<f64>::new())),
                            Comp::Q => solver.update_q(&(Vec::<usize>::new(), Vec::<f64>::new())),
                            Comp::B => solver.update_b(&(Vec::<usize>::new(), Vec::<f64>::new())),
                        };
                        r.map_err(|e| format!("{:?}", e))
                    } else {
                        let two = matches!(op, Op::Partial2(_));
                        let idx: Vec<usize> = if two { vec![len / 2, 0] } else { vec![len - 1] };
                        let cur = |k: usize| match c {
                            Comp::P => model.p0.nzval[k],
                            Comp::A => model.a0.nzval[k],
                            Comp::Q => model.q[k],
                            Comp::B => model.b[k],
                        };
                        let vals: Vec<f64> = idx.iter().map(|&k| if c == Comp::P && pdiag[k] { cur(k) + 0.5 } else { cur(k) * 1.25 }).collect();
                        let upd = (idx.clone(), vals.clone());
                        let r = match c {
                            Comp::P => solver.update_P(&upd),
                            Comp::A => solver.update_A(&upd),
                            Comp::Q => solver.update_q(&upd),
                            Comp::B => solver.update_b(&upd),
                        };
                        if !self.presolve_active {
                            for (t, &k) in idx.iter().enumerate() {
                                match c {
                                    Comp::P => model.p0.nzval[k] = vals[t],
                                    Comp::A => model.a0.nzval[k] = vals[t],
                                    Comp::Q => model.q[k] = vals[t],
                                    Comp::B => model.b[k] = vals[t],
                                }
                            }
                        }
                        r.map_err(|e| format!("{:?}", e))
                    }
                }
                Op::Empty(c) => {
                    let empty: [f64; 0] = [];
                    let r = match c {
                        Comp::P => solver.update_P(&empty),
                        Comp::A => solver.update_A(&empty),
                        Comp::Q => solver.update_q(&empty),
                        Comp::B => solver.update_b(&empty),
                    };
                    r.map_err(|e| format!("{:?}", e))
                }
                Op::WrongLen(c) => {
                    expect_ok = false;
                    let len = match c {
                        Comp::P => model.p0.nzval.len(),
                        Comp::A => model.a0.nzval.len(),
                        Comp::Q => model.q.len(),
                        Comp::B => model.b.len(),
                    };
                    let vals = vec![7.0; len + 1];
                    let r = match c {
                        Comp::P => solver.update_P(&vals),
                        Comp::A => solver.update_A(&vals),
                        Comp::Q => solver.update_q(&vals),
                        Comp::B => solver.update_b(&vals),
                    };
                    r.map_err(|e| format!("{:?}", e))
                }
                Op::OutOfRange(c) => {
                    expect_ok = false;
                    let len = match c {
                        Comp::P => model.p0.nzval.len(),
                        Comp::A => model.a0.nzval.len(),
                        Comp::Q => model.q.len(),
                        Comp::B => model.b.len(),
                    };
                    let upd = if len > 0 { (vec![0usize, len], vec![9.0, 9.0]) } else { (vec![0usize], vec![9.0]) };
                    touched_only = Some(c);
                    let r = match c {
                        Comp::P => solver.update_P(&upd),
                        Comp::A => solver.update_A(&upd),
                        Comp::Q => solver.update_q(&upd),
                        Comp::B => solver.update_b(&upd),
                    };
                    if !self.presolve_active && len > 0 {
                        model.unspecified[comp_idx(c)] = true;
                    }
                    r.map_err(|e| format!("{:?}", e))
                }
                Op::Mismatch(c) => {
                    expect_ok = false;
                    // same shape, one structural entry more (or a different one)
                    let src = if c == Comp::P { &orig.p0 } else { &orig.a0 };
                    let mut dd = csc_to_dense(src);
                    let mut done = false;
                    'o: for j in 0..dd.n {
                        for i in 0..dd.m {
                            if (c != Comp::P || i <= j) && dd.at(i, j) == 0.0 && src.get_entry((i, j)).is_none() {
                                dd.set(i, j, 3.0);
                                done = true;
                                break 'o;
                            }
                        }
                    }
                    let mat = if done {
                        dd.to_csc()
                    } else {
                        // dense pattern: drop one entry instead
                        let mut d2 = csc_to_dense(src);
                        let k = d2.a.iter().position(|v| *v != 0.0).unwrap_or(0);
                        if !d2.a.is_empty() {
                            d2.a[k] = 0.0;
                        }
                        d2.to_csc()
                    };
                    if mat.colptr == src.colptr && mat.rowval == src.rowval && (mat.m, mat.n) == (src.m, src.n) {
                        expect_ok = true; // cannot build a mismatching pattern (empty matrix): becomes a valid update
                    }
                    let r = if c == Comp::P { solver.update_P(&mat) } else { solver.update_A(&mat) };
                    if expect_ok && !self.presolve_active {
                        if c == Comp::P {
                            model.p0.nzval = mat.nzval.clone();
                        } else {
                            model.a0.nzval = mat.nzval.clone();
                        }
                    }
                    r.map_err(|e| format!("{:?}", e))
                }
                Op::MismatchMove(c) => {
                    expect_ok = false;
                    let src = if c == Comp::P { &orig.p0 } else { &orig.a0 };
                    let mut mat = src.clone();
                    let mut done = false;
                    'o: for j in 0..mat.n {
                        let (lo, hi) = (mat.colptr[j], mat.colptr[j + 1]);
                        let maxrow = if c == Comp::P { j + 1 } else { mat.m };
                        for k in lo..hi {
                            for r in 0..maxrow {
                                if !mat.rowval[lo..hi].contains(&r) {
                                    mat.rowval[k] = r;
                                    // keep the column sorted (canonical form)
                                    let mut pairs: Vec<(usize, f64)> = (lo..hi).map(|t| (mat.rowval[t], mat.nzval[t])).collect();
                                    pairs.sort_by_key(|p| p.0);
                                    for (t, (rr, vv)) in pairs.into_iter().enumerate() {
                                        mat.rowval[lo + t] = rr;
                                        mat.nzval[lo + t] = vv;
                                    }
                                    done = true;
                                    break 'o;
                                }
                            }
                        }
                    }
                    // (own comparison: the crate's sparsity check is part of what is being tested)
                    if !done || (mat.colptr == src.colptr && mat.rowval == src.rowval) {
                        expect_ok = true; // no free row in any column: the matrix is the original pattern, a valid update
                    }
                    let r = if c == Comp::P { solver.update_P(&mat) } else { solver.update_A(&mat) };
                    if expect_ok && !self.presolve_active {
                        if c == Comp::P {
                            model.p0.nzval = mat.nzval.clone();
                        } else {
                            model.a0.nzval = mat.nzval.clone();
                        }
                    }
                    r.map_err(|e| format!("{:?}", e))
                }
                Op::UpdateData => {
                    let empty: [f64; 0] = [];
                    let qv = set_values(&orig.q, Comp::Q, 2, &adiag);
                    let av = set_values(&orig.a0.nzval, Comp::A, 1, &adiag);
                    let r = solver.update_data(&empty, &qv, &av, &empty);
                    if !self.presolve_active {
                        if !qv.is_empty() {
                            model.q = qv;
                            model.unspecified[1] = false;
                        }
                        if !av.is_empty() {
                            model.a0.nzval = av;
                            model.unspecified[2] = false;
                        }
                    }
                    r.map_err(|e| format!("{:?}", e))
                }
                Op::UpdateDataBad => {
                    expect_ok = false;
                    let pv = set_values(&orig.p0.nzval, Comp::P, 1, &pdiag);
                    let qv = vec![1.0; orig.q.len() + 1];
                    let av = set_values(&orig.a0.nzval, Comp::A, 2, &adiag);
                    let bv = set_values(&orig.b, Comp::B, 1, &adiag);
                    let r = solver.update_data(&pv, &qv, &av, &bv);
                    // documented order P, q, A, b with early return: P is applied, the rest is not
                    if !self.presolve_active && !pv.is_empty() {
                        model.p0.nzval = pv;
                        model.unspecified[0] = false;
                    }
                    r.map_err(|e| format!("{:?}", e))
                }
                Op::Solve => {
                    self.do_solve(&mut solver, &model, &base, ctx)?;
                    Ok(())
                }
            };
            if *op == Op::Solve {
                continue;
            }
            if self.presolve_active {
                ensure!(res.is_err(), "update-accepted-while-presolve-active", "{} returned Ok", label);
                let after = (solver.data.P.nzval.clone(), solver.data.q.clone(), solver.data.A.nzval.clone(), solver.data.b.clone());
                ensure!(before == after, "rejected-update-modified-data", "{} (presolve active)", label);
                continue;
            }
            if expect_ok {
                ensure!(res.is_ok(), "valid-update-rejected", "{} -> {:?}", label, res);
            } else {
                ensure!(res.is_err(), "invalid-update-accepted", "{} returned Ok", label);
                if touched_only.is_none() && !matches!(op, Op::UpdateDataBad) {
                    let after = (solver.data.P.nzval.clone(), solver.data.q.clone(), solver.data.A.nzval.clone(), solver.data.b.clone());
                    ensure!(before == after, "rejected-update-modified-data", "{}", label);
                }
            }
            self.check_sync(&solver, &model, &label)?;
        }
        if self.presolve_active {
            ctx.outcome("all-rejected-presolve-active");
            ctx.nontrivial += 1;
            return Ok(());
        }
        self.do_solve(&mut solver, &model, &base, ctx)
    }
}

pub const ASSUMPTIONS: &[&str] = &[
    "internal data are compared with the model (re-scaled by the stored equilibration) to 16 ulp; KKT copies of P and A entries must equal the internal data bit for bit",
    "a rejected index/value update may leave its own component partially written (the property leaves it unspecified): that component is not compared until its next accepted whole update, and solves in that state are only required not to panic",
    "agreement with a freshly built solver is demanded on the verdict class and, when solved, on both objectives to 1e-6 relative; if the fresh solver itself ends without a verdict nothing is demanded",
    "update_data applies P, q, A, b in the documented order and stops at the first error",
];

pub fn spaces(tier: &str, _seed: u64) -> Vec<Box<dyn Space>> {
    let thorough = tier == "thorough";
    let mut v: Vec<Box<dyn Space>> = vec![];
    let maxd = if thorough { 4 } else { 3 };
    for base in 0..4 {
        for equil in [true, false] {
            for depth in 0..=maxd {
                if depth == maxd && !thorough && base >= 2 && !equil {
                    continue; // quick: deepest level on both equilibration modes only for two bases
                }
                v.push(Box::new(Hist { depth, base, equil, presolve_active: false }));
            }
        }
    }
    for base in 4..6 {
        for equil in [true, false] {
            for depth in 1..=(if thorough { 3 } else { 2 }) {
                v.push(Box::new(Hist { depth, base, equil, presolve_active: false }));
            }
        }
    }
    for depth in 1..=2 {
        v.push(Box::new(Hist { depth, base: 0, equil: true, presolve_active: true }));
    }
    v
}

#[allow(dead_code)]
pub fn debug_scalings() {
    for k in 0..6 {
        let p = base_problem(k);
        let s = p.build(SettingsSpec::default().build());
        println!("base {} c={} d={:?} e={:?}", k, s.data.equilibration.c, s.data.equilibration.d, s.data.equilibration.e);
    }
}
