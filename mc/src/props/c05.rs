//! C05 — equivalent formulations, configurations, threads and repeats give consistent answers.
//! (forms) every base problem x every transformation of an alphabet (and every pair in thorough):
//! same verdict class, weak duality across runs with an explicit residual slack;
//! (repeats) bit-for-bit equality of a second solve, of a rebuilt solver and of another process;
//! (schedules) all interleavings of the accesses to the module-level infinity bound by 2-3 real threads.

use super::sweep::{Dev, Judge, Planted};
use crate::dense::*;
use crate::oracle::*;
use crate::problem::*;
use crate::solve::*;
use crate::util::*;
use clarabel::solver::*;
use clarabel::verif_hooks::sched_hook_set;
use serde_json::{json, Value};
use std::sync::{Arc, Condvar, Mutex};

// ----------------------------------------------------------------------
// transformations with their inverse maps
// ----------------------------------------------------------------------
#[derive(Clone, Debug, PartialEq)]
pub enum Tf {
    Identity,
    /// reverse the rows inside every zero / nonnegative cone
    ReverseRowsInScalarCones,
    /// rotate the rows of every nonnegative cone by one
    RotateRowsInNN,
    /// reverse the order of the cones (rows move with their cone)
    ReverseCones,
    /// move the first cone to the end
    RotateCones,
    /// reverse the variables
    ReverseVars,
    /// rotate the variables
    RotateVars,
    /// split every NN(k>=2) into NN(1), NN(k-1)
    SplitNN,
    /// give P as the full symmetric matrix / as its upper triangle (the opposite of the base)
    FlipPStorage,
    /// scale the objective by c > 0
    ScaleObjective(f64),
    /// settings-only variants
    Settings(&'static str),
}

pub fn alphabet() -> Vec<Tf> {
    vec![
        Tf::Identity,
        Tf::ReverseRowsInScalarCones,
        Tf::RotateRowsInNN,
        Tf::ReverseCones,
        Tf::RotateCones,
        Tf::ReverseVars,
        Tf::RotateVars,
        Tf::SplitNN,
        Tf::FlipPStorage,
        Tf::ScaleObjective(0.5),
        Tf::ScaleObjective(2.0),
        Tf::ScaleObjective(1e3),
        Tf::Settings("presolve_off"),
        Tf::Settings("equilibrate_off"),
        Tf::Settings("qdldl"),
        Tf::Settings("faer"),
        Tf::Settings("faer_threads1"),
        Tf::Settings("faer_threads2"),
        Tf::Settings("faer_threads4"),
    ]
}

/// a transformed problem together with the maps that take its solution back to base coordinates
pub struct Variant {
    pub p: Prob,
    pub ss: SettingsSpec,
    /// base row index for each row of the variant
    pub row_of: Vec<usize>,
    /// base variable index for each variable of the variant
    pub var_of: Vec<usize>,
    pub obj_scale: f64,
}

pub fn identity_variant(p: &Prob, ss: &SettingsSpec) -> Variant {
    Variant {
        p: p.clone(),
        ss: ss.clone(),
        row_of: (0..p.m).collect(),
        var_of: (0..p.n).collect(),
        obj_scale: 1.0,
    }
}

fn permute_rows(v: &Variant, order: &[usize], cones: Vec<ConeSpec>) -> Variant {
    // order[k] = index (in v) of the row that becomes row k
    let p = &v.p;
    let rows: Vec<Vec<f64>> = order.iter().map(|&r| (0..p.n).map(|j| p.a.at(r, j)).collect()).collect();
    Variant {
        p: Prob {
            n: p.n,
            m: p.m,
            p: p.p.clone(),
            p_full: p.p_full,
            q: p.q.clone(),
            a: Dense::from_rows(&rows, p.n),
            b: order.iter().map(|&r| p.b[r]).collect(),
            cones,
        },
        ss: v.ss.clone(),
        row_of: order.iter().map(|&r| v.row_of[r]).collect(),
        var_of: v.var_of.clone(),
        obj_scale: v.obj_scale,
    }
}

fn permute_vars(v: &Variant, order: &[usize]) -> Variant {
    let p = &v.p;
    let mut a = Dense::zeros(p.m, p.n);
    let mut pm = Dense::zeros(p.n, p.n);
    for (k, &j) in order.iter().enumerate() {
        for i in 0..p.m {
            a.set(i, k, p.a.at(i, j));
        }
        for (k2, &j2) in order.iter().enumerate() {
            pm.set(k, k2, p.p.at(j, j2));
        }
    }
    Variant {
        p: Prob {
            n: p.n,
            m: p.m,
            p: pm,
            p_full: p.p_full,
            q: order.iter().map(|&j| p.q[j]).collect(),
            a,
            b: p.b.clone(),
            cones: p.cones.clone(),
        },
        ss: v.ss.clone(),
        row_of: v.row_of.clone(),
        var_of: order.iter().map(|&j| v.var_of[j]).collect(),
        obj_scale: v.obj_scale,
    }
}

pub fn apply(v: &Variant, t: &Tf) -> Variant {
    let p = &v.p;
    match t {
        Tf::Identity => Variant { p: p.clone(), ss: v.ss.clone(), row_of: v.row_of.clone(), var_of: v.var_of.clone(), obj_scale: v.obj_scale },
        Tf::ReverseRowsInScalarCones | Tf::RotateRowsInNN => {
            let mut order = vec![];
            let mut off = 0;
            for c in &p.cones {
                let k = c.numel();
                let mut idx: Vec<usize> = (off..off + k).collect();
                match (t, c) {
                    (Tf::ReverseRowsInScalarCones, ConeSpec::NN(_)) | (Tf::ReverseRowsInScalarCones, ConeSpec::Zero(_)) => idx.reverse(),
                    (Tf::RotateRowsInNN, ConeSpec::NN(_)) if k > 1 => idx.rotate_left(1),
                    _ => {}
                }
                order.extend(idx);
                off += k;
            }
            permute_rows(v, &order, p.cones.clone())
        }
        Tf::ReverseCones | Tf::RotateCones => {
            let mut blocks: Vec<(ConeSpec, Vec<usize>)> = vec![];
            let mut off = 0;
            for c in &p.cones {
                let k = c.numel();
                blocks.push((c.clone(), (off..off + k).collect()));
                off += k;
            }
            if *t == Tf::ReverseCones {
                blocks.reverse();
            } else if !blocks.is_empty() {
                blocks.rotate_left(1);
            }
            let order: Vec<usize> = blocks.iter().flat_map(|b| b.1.clone()).collect();
            permute_rows(v, &order, blocks.into_iter().map(|b| b.0).collect())
        }
        Tf::ReverseVars => {
            let order: Vec<usize> = (0..p.n).rev().collect();
            permute_vars(v, &order)
        }
        Tf::RotateVars => {
            let mut order: Vec<usize> = (0..p.n).collect();
            if p.n > 1 {
                order.rotate_left(1);
            }
            permute_vars(v, &order)
        }
        Tf::SplitNN => {
            let mut cones = vec![];
            for c in &p.cones {
                match c {
                    ConeSpec::NN(k) if *k >= 2 => {
                        cones.push(ConeSpec::NN(1));
                        cones.push(ConeSpec::NN(k - 1));
                    }
                    _ => cones.push(c.clone()),
                }
            }
            let order: Vec<usize> = (0..p.m).collect();
            permute_rows(v, &order, cones)
        }
        Tf::FlipPStorage => {
            let mut w = apply(v, &Tf::Identity);
            w.p.p_full = !w.p.p_full;
            w
        }
        Tf::ScaleObjective(c) => {
            let mut w = apply(v, &Tf::Identity);
            for x in w.p.p.a.iter_mut() {
                *x *= c;
            }
            for x in w.p.q.iter_mut() {
                *x *= c;
            }
            w.obj_scale *= c;
            w
        }
        Tf::Settings(name) => {
            let mut w = apply(v, &Tf::Identity);
            match *name {
                "presolve_off" => w.ss.presolve_enable = false,
                "equilibrate_off" => w.ss.equilibrate_enable = false,
                "qdldl" => w.ss.method = "qdldl",
                "faer" => w.ss.method = "faer",
                "faer_threads1" => {
                    w.ss.method = "faer";
                    w.ss.max_threads = 1;
                }
                "faer_threads2" => {
                    w.ss.method = "faer";
                    w.ss.max_threads = 2;
                }
                _ => {
                    w.ss.method = "faer";
                    w.ss.max_threads = 4;
                }
            }
            w
        }
    }
}

/// a solution mapped back to base coordinates and base objective scale
#[derive(Clone, Debug)]
pub struct Mapped {
    pub status: SolverStatus,
    pub x: Vec<f64>,
    pub s: Vec<f64>,
    pub z: Vec<f64>,
    pub obj: f64,
    pub obj_dual: f64,
}

pub fn map_back(v: &Variant, r: &Run, base: &Prob) -> Mapped {
    let mut x = vec![0.0; base.n];
    let mut s = vec![0.0; base.m];
    let mut z = vec![0.0; base.m];
    for (k, &j) in v.var_of.iter().enumerate() {
        x[j] = r.x[k];
    }
    for (k, &i) in v.row_of.iter().enumerate() {
        s[i] = r.s[k];
        z[i] = r.z[k] / v.obj_scale;
    }
    Mapped { status: r.status, x, s, z, obj: r.obj_val / v.obj_scale, obj_dual: r.obj_val_dual / v.obj_scale }
}

pub fn class_of(s: SolverStatus) -> &'static str {
    match s {
        SolverStatus::Solved | SolverStatus::AlmostSolved => "solved",
        SolverStatus::PrimalInfeasible | SolverStatus::AlmostPrimalInfeasible => "pinf",
        SolverStatus::DualInfeasible | SolverStatus::AlmostDualInfeasible => "dinf",
        _ => "other",
    }
}

/// weak duality across two runs on the same base problem, with the explicit residual slack
pub fn cross_check(base: &Prob, a: &Mapped, b: &Mapped) -> CaseResult {
    // p(a) - d(b) = 1/2 (xa-xb)'P(xa-xb) + rd_b' xa + sa' zb - rp_a' zb  >=  -(|rd_b'xa| + |rp_a'zb| + cone slack)
    let nosk = vec![false; base.m];
    let ea = kkt_eval(base, &a.x, &a.s, &a.z, &nosk);
    let eb = kkt_eval(base, &b.x, &b.s, &b.z, &nosk);
    let ax = base.a.mulvec(&a.x);
    let rp_a: Vec<f64> = (0..base.m).map(|i| ax[i] + a.s[i] - base.b[i]).collect();
    let pxb = base.p.mulvec(&b.x);
    let atzb = base.a.tmulvec(&b.z);
    let rd_b: Vec<f64> = (0..base.n).map(|j| pxb[j] + atzb[j] + base.q[j]).collect();
    let slack = dot(&rd_b, &a.x).abs() + dot(&rp_a, &b.z).abs() + 1e-9 * norm2(&a.s) * norm2(&b.z) + round_allow(ea.terms, ea.mag_xpx + ea.mag_qtx + eb.mag_btz + eb.mag_xpx);
    let lhs = ea.pcost - eb.dcost;
    ensure!(
        lhs >= -slack * (1.0 + 1e-6) - 1e-12,
        "weak-duality-across-runs-violated",
        "primal objective {:.12e} of one run is below the dual objective {:.12e} of an equivalent run by more than the residual slack {:e}",
        ea.pcost,
        eb.dcost,
        slack
    );
    Ok(())
}

pub struct Forms {
    pub src: Planted,
    pub pairs: bool, // compose two transformations
}
impl Forms {
    fn ntf(&self) -> u64 {
        let k = alphabet().len() as u64;
        if self.pairs {
            k * k
        } else {
            k
        }
    }
    fn decode(&self, id: u64) -> (Prob, SettingsSpec, Vec<Tf>) {
        let mut d = Digits(id);
        let al = alphabet();
        let t1 = d.pick(&al).clone();
        let mut tfs = vec![t1];
        if self.pairs {
            tfs.push(d.pick(&al).clone());
        }
        let (p, ss) = self.src.case_of(d.0);
        (p, ss, tfs)
    }
    fn well_conditioned_case(&self, id: u64) -> bool {
        // exclude the 1e+-6 row/column scalings: they are not "well-posed with bounded conditioning"
        let devs = self.src.devs_of(id / self.ntf());
        !devs.iter().any(|d| matches!(d, Dev::ScaleRow(_, _) | Dev::ScaleCol(_, _)))
    }
}

impl Space for Forms {
    fn name(&self) -> String {
        format!("forms-{}-{}", if self.pairs { "pairs" } else { "singles" }, self.src.name())
    }
    fn size(&self) -> u64 {
        self.ntf() * self.src.size()
    }
    fn describe(&self, id: u64) -> Value {
        let (p, ss, tfs) = self.decode(id);
        json!({"base_problem": p.to_json(), "base_settings": ss.to_json(), "transformations": tfs.iter().map(|t| format!("{:?}", t)).collect::<Vec<_>>()})
    }
    fn bound(&self) -> Value {
        json!({"alphabet": alphabet().iter().map(|t| format!("{:?}", t)).collect::<Vec<_>>(), "word_length": if self.pairs {2} else {1}})
    }
    fn run(&self, id: u64, ctx: &mut Ctx) -> CaseResult {
        if !self.well_conditioned_case(id) {
            ctx.outcome("skipped(1e6-scaled deviation: not well-posed)");
            return Ok(());
        }
        let (base, ss, tfs) = self.decode(id);
        if self.src.inf_rows && tfs.iter().any(|t| matches!(t, Tf::Settings("presolve_off"))) {
            // with presolve off the row is kept with a right-hand side of 1e20: no longer a form "with bounded
            // conditioning" (the open C02 finding huge-rhs describes what the solver does there); agreement of
            // presolve on and off is C09's subject, with its own classes
            ctx.outcome("skipped(presolve off keeps a 1e20 row: not a bounded-conditioning form)");
            return Ok(());
        }
        let Ok(r0) = run_solver(&base, &ss, false) else {
            ctx.outcome("base-panics(judged by C04)");
            return Ok(());
        };
        // only well-posed bases carry an expectation: a definite verdict at full accuracy
        if !matches!(r0.status, SolverStatus::Solved | SolverStatus::PrimalInfeasible | SolverStatus::DualInfeasible) {
            ctx.outcome("base-not-well-posed(skipped)");
            return Ok(());
        }
        let v0 = identity_variant(&base, &ss);
        let mut v = apply(&v0, &tfs[0]);
        for t in &tfs[1..] {
            v = apply(&v, t);
        }
        let r1 = run_solver(&v.p, &v.ss, false).map_err(|e| Violation::new("equivalent-form-panics", format!("{:?}: {}", tfs, e)))?;
        ctx.transitions += 2;
        let m0 = map_back(&v0, &r0, &base);
        let m1 = map_back(&v, &r1, &base);
        // (a base with data of 1e21 is strongly infeasible on paper, but no verdict class is demanded of a run at
        // that magnitude: only contradictions count, as for deviated instances)
        let planted_base = self.src.devs_of(id / self.ntf()).is_empty() && !self.src.minus_inf_row;
        if planted_base {
            // a planted strictly feasible primal-dual pair is well-posed by construction:
            // every equivalent form must reach the same verdict class
            // (key suffix: an inconclusive variant reached through a scaled objective is the open known finding)
            let inconclusive = class_of(r1.status) == "other";
            let scaled = tfs.iter().any(|t| format!("{:?}", t).starts_with("ScaleObjective"));
            let key = if inconclusive && scaled { "verdict-class-differs-between-equivalent-forms:inconclusive-under-objective-scaling" } else { "verdict-class-differs-between-equivalent-forms" };
            ensure!(class_of(r1.status) == class_of(r0.status), key, "base {:?} but {:?} gives {:?}", r0.status, tfs, r1.status);
        } else {
            // a deviated instance may be ill-posed (weakly feasible/infeasible): an inconclusive variant carries
            // no expectation, but two definite verdicts must not contradict each other
            if class_of(r1.status) == "other" {
                ctx.outcome("deviated-instance-variant-inconclusive(skipped)");
                return Ok(());
            }
            let (c0, c1) = (class_of(r0.status), class_of(r1.status));
            let both_infeasible = c0 != "solved" && c1 != "solved";
            if c0 != c1 && !both_infeasible {
                // "solved" against "infeasible". If each verdict is certified on its own data by the C01 / C02
                // oracles (an approximate optimum and an approximate certificate both exist), the instance is
                // ill-posed -- weakly (in)feasible to tolerance -- and outside this property; a verdict that is
                // not certified is what C01 / C02 report
                let certified = |prob: &Prob, sset: &SettingsSpec| -> bool {
                    match run_solver(prob, sset, true) {
                        Ok(r) => judge_c01(prob, sset, &r, 1e20).is_ok() && judge_c02(prob, sset, &r, 1e20).is_ok(),
                        Err(_) => false,
                    }
                };
                if certified(&base, &ss) && certified(&v.p, &v.ss) {
                    ctx.outcome("ill-posed-instance:both-verdicts-certified(skipped)");
                    return Ok(());
                }
            }
            ensure!(
                c0 == c1 || both_infeasible,
                "contradictory-verdicts-between-equivalent-forms",
                "base {:?} but {:?} gives {:?}",
                r0.status,
                tfs,
                r1.status
            );
            if c0 != c1 {
                ctx.outcome("primal-and-dual-infeasible(either verdict)");
                return Ok(());
            }
        }
        if class_of(r0.status) == "solved" {
            cross_check(&base, &m0, &m1)?;
            cross_check(&base, &m1, &m0)?;
            // and the objectives agree within the two gaps plus the residual slack
            let nosk = vec![false; base.m];
            let e0 = kkt_eval(&base, &m0.x, &m0.s, &m0.z, &nosk);
            let e1 = kkt_eval(&base, &m1.x, &m1.s, &m1.z, &nosk);
            let slack = e0.gap_abs + e1.gap_abs + dot_abs(&base, &m0, &m1) + dot_abs(&base, &m1, &m0) + 1e-9 * (norm2(&m0.s) * norm2(&m1.z) + norm2(&m1.s) * norm2(&m0.z));
            ensure!(
                (e0.pcost - e1.pcost).abs() <= slack * (1.0 + 1e-6) + 1e-9 * e0.pcost.abs().max(1.0),
                "objectives-differ-between-equivalent-forms",
                "{:.12e} vs {:.12e} (allowed {:e}) for {:?}",
                e0.pcost,
                e1.pcost,
                slack,
                tfs
            );
            // reported objective of the variant is the scaled objective
            ensure!((m1.obj - e1.pcost).abs() <= 1e-8 * e1.pcost.abs().max(1.0), "variant-objective-report", "{} vs {}", m1.obj, e1.pcost);
        }
        ctx.outcome(&format!("{}-agrees", class_of(r0.status)));
        ctx.nontrivial += 1;
        Ok(())
    }
}

fn dot_abs(base: &Prob, a: &Mapped, b: &Mapped) -> f64 {
    let ax = base.a.mulvec(&a.x);
    let rp_a: Vec<f64> = (0..base.m).map(|i| ax[i] + a.s[i] - base.b[i]).collect();
    let pxb = base.p.mulvec(&b.x);
    let atzb = base.a.tmulvec(&b.z);
    let rd_b: Vec<f64> = (0..base.n).map(|j| pxb[j] + atzb[j] + base.q[j]).collect();
    dot(&rd_b, &a.x).abs() + dot(&rp_a, &b.z).abs()
}

// ----------------------------------------------------------------------
// repeats: bit-for-bit
// ----------------------------------------------------------------------
fn fingerprint(r: &Run) -> Vec<u64> {
    let mut v: Vec<u64> = vec![r.status as u64, r.iterations as u64, r.obj_val.to_bits(), r.obj_val_dual.to_bits(), r.r_prim.to_bits(), r.r_dual.to_bits()];
    v.extend(r.x.iter().map(|x| x.to_bits()));
    v.extend(r.s.iter().map(|x| x.to_bits()));
    v.extend(r.z.iter().map(|x| x.to_bits()));
    v
}

pub struct Repeats {
    pub src: Planted,
    pub child_every: u64,
}
impl Space for Repeats {
    fn name(&self) -> String {
        format!("repeats-{}", self.src.name())
    }
    fn size(&self) -> u64 {
        self.src.size() * 3
    }
    fn describe(&self, id: u64) -> Value {
        let (p, mut ss) = self.src.case_of(id / 3);
        ss.method = ["auto", "qdldl", "faer"][(id % 3) as usize];
        json!({"problem": p.to_json(), "settings": ss.to_json(), "checks": ["solve twice on one solver", "rebuild and solve", "another process (sub-lattice)"]})
    }
    fn run(&self, id: u64, ctx: &mut Ctx) -> CaseResult {
        let (p, mut ss) = self.src.case_of(id / 3);
        ss.method = ["auto", "qdldl", "faer"][(id % 3) as usize];
        let st = ss.build();
        let Ok((f1, f2)) = guarded(|| {
            let mut solver = p.build(st.clone());
            solver.solve();
            let a = fingerprint(&extract(&solver, vec![]));
            solver.solve();
            let b = fingerprint(&extract(&solver, vec![]));
            (a, b)
        }) else {
            ctx.outcome("panic(judged by C04)");
            return Ok(());
        };
        ensure!(f1 == f2, "second-solve-differs-from-first", "the same solver object solved twice gives different bits ({} backend)", ss.method);
        let r3 = run_solver(&p, &ss, false).map_err(|e| Violation::new("rebuilt-solver-panics", e))?;
        ensure!(fingerprint(&r3) == f1, "rebuilt-solver-differs", "an identical fresh solver gives different bits ({} backend)", ss.method);
        ctx.transitions += 3;
        if self.child_every > 0 && id % self.child_every == 0 {
            let exe = std::env::current_exe().map_err(|e| Violation::new("machinery-no-exe", format!("{}", e)))?;
            let out = std::process::Command::new(exe).args(["c05child", &self.name(), &id.to_string()]).output().map_err(|e| Violation::new("machinery-child-failed", format!("{}", e)))?;
            ensure!(out.status.success(), "machinery-child-failed", "{:?}", out.status);
            let txt = String::from_utf8_lossy(&out.stdout).to_string();
            let theirs: Vec<u64> = txt.split_whitespace().filter_map(|t| t.parse().ok()).collect();
            ensure!(theirs == f1, "another-process-differs", "a second process computes different bits ({} backend)", ss.method);
            ctx.outcome("child-process-compared");
        }
        ctx.nontrivial += 1;
        Ok(())
    }
}

pub fn child(space_name: &str, id: u64) -> i32 {
    let first = std::env::var("VERIF_TIER").unwrap_or_else(|_| "quick".into());
    let other = if first == "thorough" { "quick" } else { "thorough" };
    for tier in [first.as_str(), other] {
        for s in repeat_spaces(tier) {
            if s.name() == space_name {
                let (p, mut ss) = s.src.case_of(id / 3);
                ss.method = ["auto", "qdldl", "faer"][(id % 3) as usize];
                if let Ok(r) = run_solver(&p, &ss, false) {
                    let f = fingerprint(&r);
                    println!("{}", f.iter().map(|x| x.to_string()).collect::<Vec<_>>().join(" "));
                    return 0;
                }
                return 4;
            }
        }
    }
    3
}

// ----------------------------------------------------------------------
// schedules: the one shared location (module-level infinity bound) under a baton scheduler
// ----------------------------------------------------------------------
struct Baton {
    state: Mutex<BatonState>,
    cv: Condvar,
}
struct BatonState {
    waiting: Vec<Option<&'static str>>, // what each thread is about to do, if blocked at a point
    finished: Vec<bool>,
    granted: Option<usize>,
    running: Option<usize>,
}
impl Baton {
    fn new(n: usize) -> Self {
        Self {
            state: Mutex::new(BatonState { waiting: vec![None; n], finished: vec![false; n], granted: None, running: None }),
            cv: Condvar::new(),
        }
    }
    /// called by a worker before every access to the shared location
    fn arrive(&self, tid: usize, what: &'static str) {
        let mut g = self.state.lock().unwrap();
        g.waiting[tid] = Some(what);
        if g.running == Some(tid) {
            g.running = None;
        }
        self.cv.notify_all();
        while g.granted != Some(tid) {
            g = self.cv.wait(g).unwrap();
        }
        g.granted = None;
        g.waiting[tid] = None;
        g.running = Some(tid);
    }
    fn finish(&self, tid: usize) {
        let mut g = self.state.lock().unwrap();
        g.finished[tid] = true;
        if g.running == Some(tid) {
            g.running = None;
        }
        self.cv.notify_all();
    }
}

#[derive(Clone, Debug)]
struct Decision {
    enabled: Vec<usize>,
    chosen: usize, // index into enabled
    prev_still_enabled: bool,
}

fn sched_problem(k: usize) -> Prob {
    // right-hand sides that make the bound in force observable: 2e7 is "infinite" under 1e5 / 1e7, finite under 1e20
    use ConeSpec::*;
    let base = super::sweep::planted(&[NN(3), SOC(2)], 2, 5 + k as u64, 0, 0, 1, &Dense::eye(2), false);
    let mut p = base;
    p.b[1] = 2e7;
    p.b[3] = 5e9; // capped (not dropped) in the second-order cone under small bounds
    if k == 1 {
        p.b[0] = 3e12;
    }
    p
}

/// thread bodies: 0 brackets its build with set_infinity(1e5)/default_infinity(); the others just build and solve
fn body(tid: usize) -> Vec<u64> {
    let p = sched_problem(tid);
    let ss = SettingsSpec { equilibrate_enable: tid != 1, ..Default::default() };
    if tid == 0 {
        clarabel::set_infinity(1e5);
    }
    let mut solver = p.build(ss.build());
    if tid == 0 {
        clarabel::default_infinity();
    }
    solver.solve();
    let mut f = fingerprint(&extract(&solver, vec![]));
    f.push(solver.data.m as u64);
    f.extend(solver.data.b.iter().map(|x| x.to_bits()));
    f
}

/// run the T bodies under one schedule (a prefix of choices, default = keep running / lowest id)
fn run_schedule(nthreads: usize, prefix: &[usize]) -> (Vec<Decision>, Vec<Vec<u64>>, Vec<(usize, &'static str)>) {
    clarabel::default_infinity();
    let baton = Arc::new(Baton::new(nthreads));
    let results: Arc<Mutex<Vec<Vec<u64>>>> = Arc::new(Mutex::new(vec![vec![]; nthreads]));
    let mut handles = vec![];
    for tid in 0..nthreads {
        let b = baton.clone();
        let res = results.clone();
        handles.push(std::thread::spawn(move || {
            let b2 = b.clone();
            sched_hook_set(Some(Box::new(move |what| b2.arrive(tid, what))));
            b.arrive(tid, "start");
            let out = guarded(|| body(tid)).unwrap_or_else(|_| vec![u64::MAX]);
            sched_hook_set(None);
            res.lock().unwrap()[tid] = out;
            b.finish(tid);
        }));
    }
    let mut decisions = vec![];
    let mut order: Vec<(usize, &'static str)> = vec![];
    let mut last: Option<usize> = None;
    loop {
        // wait until nobody runs: every live thread is blocked at a point
        let mut g = baton.state.lock().unwrap();
        loop {
            let live_blocked = (0..nthreads).all(|t| g.finished[t] || g.waiting[t].is_some());
            if g.running.is_none() && g.granted.is_none() && live_blocked {
                break;
            }
            g = baton.cv.wait(g).unwrap();
        }
        let mut enabled: Vec<usize> = (0..nthreads).filter(|&t| !g.finished[t] && g.waiting[t].is_some()).collect();
        if enabled.is_empty() {
            break;
        }
        // canonical order: the thread that ran last first, then ascending ids
        let prev_still_enabled = last.map(|l| enabled.contains(&l)).unwrap_or(false);
        if let Some(l) = last {
            if let Some(pos) = enabled.iter().position(|&t| t == l) {
                enabled.remove(pos);
                enabled.insert(0, l);
            }
        }
        let step = decisions.len();
        let choice = if step < prefix.len() { prefix[step] } else { 0 };
        assert!(choice < enabled.len(), "schedule replay diverged: choice {} of {} at step {}", choice, enabled.len(), step);
        let tid = enabled[choice];
        order.push((tid, g.waiting[tid].unwrap()));
        decisions.push(Decision { enabled: enabled.clone(), chosen: choice, prev_still_enabled });
        g.granted = Some(tid);
        last = Some(tid);
        baton.cv.notify_all();
        drop(g);
    }
    for h in handles {
        let _ = h.join();
    }
    clarabel::default_infinity();
    let res = results.lock().unwrap().clone();
    (decisions, res, order)
}

/// the sequential reference: one thread, with the loaded values forced to the ones the schedule produced
fn reference_for(tid: usize, loads_seen: &[f64]) -> Vec<u64> {
    clarabel::default_infinity();
    let vals: Vec<f64> = loads_seen.to_vec();
    let k = std::cell::Cell::new(0usize);
    let vals2 = vals.clone();
    sched_hook_set(Some(Box::new(move |what| {
        if what == "load" {
            let i = k.get();
            if i < vals2.len() {
                // make this load see the value the concurrent run saw (the hook's own store is not re-entrant)
                clarabel::set_infinity(vals2[i]);
            }
            k.set(i + 1);
        }
    })));
    let out = guarded(|| body(tid)).unwrap_or_else(|_| vec![u64::MAX]);
    sched_hook_set(None);
    clarabel::default_infinity();
    out
}

pub struct Schedules {
    pub nthreads: usize,
    pub preemption_bound: Option<usize>,
}
impl Space for Schedules {
    fn name(&self) -> String {
        format!("infinity-schedules-{}threads-{}", self.nthreads, self.preemption_bound.map(|b| format!("pb{}", b)).unwrap_or_else(|| "unbounded".into()))
    }
    fn size(&self) -> u64 {
        1
    }
    fn serial(&self) -> bool {
        true
    }
    fn describe(&self, _id: u64) -> Value {
        json!({"threads": self.nthreads, "bodies": "thread 0: set_infinity(1e5); build; default_infinity(); solve -- others: build; solve", "scheduling_points": "every load/store of the module-level bound (hook H5)", "preemption_bound": self.preemption_bound})
    }
    fn bound(&self) -> Value {
        json!({"threads": self.nthreads, "preemption_bound": self.preemption_bound})
    }
    fn run(&self, _id: u64, ctx: &mut Ctx) -> CaseResult {
        // depth-first enumeration of all schedules (stateless: every schedule is a fresh execution)
        let mut stack: Vec<Vec<usize>> = vec![vec![]];
        let mut nsched = 0u64;
        let mut distinct: std::collections::BTreeSet<Vec<Vec<u64>>> = std::collections::BTreeSet::new();
        while let Some(prefix) = stack.pop() {
            let (decisions, results, order) = run_schedule(self.nthreads, &prefix);
            nsched += 1;
            ctx.transitions += decisions.len() as u64;
            // which value did each load see?  replay the accesses in schedule order on a model of the location
            let mut value = 1e20;
            let mut loads: Vec<Vec<f64>> = vec![vec![]; self.nthreads];
            let mut store_count = vec![0usize; self.nthreads];
            for &(tid, what) in &order {
                match what {
                    "store" => {
                        // thread 0 stores 1e5 first, then the default
                        value = if store_count[tid] == 0 { 1e5 } else { 1e20 };
                        store_count[tid] += 1;
                    }
                    "load" => loads[tid].push(value),
                    _ => {}
                }
            }
            for tid in 0..self.nthreads {
                ensure!(results[tid] != vec![u64::MAX], "thread-panics-under-schedule", "thread {} panicked under schedule {:?}", tid, order);
                let want = reference_for(tid, &loads[tid]);
                ensure!(
                    results[tid] == want,
                    "result-differs-from-sequential-run-with-same-loads",
                    "thread {} under schedule {:?} (loads saw {:?}) differs from the sequential run that sees the same values",
                    tid,
                    order,
                    loads[tid]
                );
            }
            distinct.insert(results.clone());
            // children: alternatives at every decision after the prefix
            for i in prefix.len()..decisions.len() {
                let preempts_before: usize = decisions[..i].iter().filter(|d| d.prev_still_enabled && d.chosen != 0).count();
                for alt in 1..decisions[i].enabled.len() {
                    let cost = preempts_before + usize::from(decisions[i].prev_still_enabled);
                    if let Some(b) = self.preemption_bound {
                        if cost > b {
                            continue;
                        }
                    }
                    let mut next: Vec<usize> = decisions[..i].iter().map(|d| d.chosen).collect();
                    next.push(alt);
                    stack.push(next);
                }
            }
        }
        ctx.outcome_n("schedules", nsched);
        ctx.outcome_n("distinct-joint-results", distinct.len() as u64);
        ensure!(distinct.len() >= 2, "machinery-vacuous-schedules", "all {} schedules gave the same joint result: the bodies do not interact", nsched);
        ctx.nontrivial += 1;
        Ok(())
    }
}

/// the same bodies, free-running on real threads without the scheduler (NOT exhaustive: the OS schedules).
/// Catches unsynchronised shared state that lies between scheduling points, which the baton cannot interleave.
pub struct FreeRun {
    pub rounds: u64,
}
impl Space for FreeRun {
    fn name(&self) -> String {
        "free-running-threads(sampling)".into()
    }
    fn size(&self) -> u64 {
        self.rounds
    }
    fn serial(&self) -> bool {
        true
    }
    fn is_sampling_supplement(&self) -> bool {
        true
    }
    fn describe(&self, id: u64) -> Value {
        json!({"round": id, "threads": 16, "bodies": "build+solve of three problems, no calls that change the bound"})
    }
    fn run(&self, _id: u64, ctx: &mut Ctx) -> CaseResult {
        clarabel::default_infinity();
        let want: Vec<Vec<u64>> = (0..3).map(|k| free_body(k)).collect();
        let results: Vec<(usize, Vec<u64>)> = std::thread::scope(|sc| {
            let hs: Vec<_> = (0..16).map(|t| sc.spawn(move || (t % 3, guarded(|| free_body(t % 3)).unwrap_or_default()))).collect();
            hs.into_iter().map(|h| h.join().unwrap()).collect()
        });
        for (k, r) in results {
            ensure!(r == want[k], "concurrent-instances-interfere", "problem {} solved on a free-running thread differs from its sequential result", k);
        }
        ctx.transitions += 16;
        Ok(())
    }
}
fn free_body(k: usize) -> Vec<u64> {
    let p = sched_problem(k % 2);
    let ss = SettingsSpec { equilibrate_enable: k != 1, method: if k == 2 { "qdldl" } else { "auto" }, ..Default::default() };
    let mut solver = p.build(ss.build());
    solver.solve();
    fingerprint(&extract(&solver, vec![]))
}

fn repeat_spaces(tier: &str) -> Vec<Repeats> {
    use ConeSpec::*;
    let thorough = tier == "thorough";
    let s0 = vec![SettingsSpec::default()];
    let lists: Vec<(Vec<ConeSpec>, usize)> = vec![(vec![NN(3), SOC(3)], 3), (vec![Zero(1), NN(2), Exp], 3), (vec![PSD(2), NN(2)], 2), (vec![GenPow(vec![0.2, 0.3, 0.5], 2), Zero(1)], 3), (vec![SOC(5), NN(1)], 3)];
    lists
        .into_iter()
        .map(|(l, n)| Repeats {
            src: Planted::new(l, n, s0.clone(), Judge::C04, if thorough { 1 } else { 0 }, if thorough { (0..9).collect() } else { vec![0, 5] }, "default"),
            child_every: 37,
        })
        .collect()
}

pub const ASSUMPTIONS: &[&str] = &[
    "bases are the planted strictly feasible instances and their single data deviations (1e+-6 scalings excluded as not well-posed); only bases that end Solved / PrimalInfeasible / DualInfeasible at full accuracy carry an expectation",
    "verdict classes: Solved~AlmostSolved, PrimalInfeasible~AlmostPrimalInfeasible, DualInfeasible~AlmostDualInfeasible; for planted (provably well-posed) bases every variant must reach the base's class; for deviated instances, whose well-posedness is not certified, an inconclusive variant is skipped and only contradictions (solved vs infeasible) are violations",
    "weak duality across runs: p_i - d_j >= -(|rd_j' x_i| + |rp_i' z_j| + 1e-9 |s_i||z_j| + rounding), derived from p_i - d_j = (x_i-x_j)'P(x_i-x_j)/2 + rd_j'x_i + s_i'z_j - rp_i'z_j after mapping both solutions to base coordinates",
    "schedules: the only shared mutable location is the module-level bound; scheduling points sit before each of its loads/stores (hook H5); relaxed-memory reorderings are not modelled (single location); rayon's internal scheduling inside faer is not controlled, only thread counts are enumerated",
    "the sequential reference of a schedule re-runs the same body single-threaded with each load forced to the value the schedule delivered",
];

pub fn spaces(tier: &str, _seed: u64) -> Vec<Box<dyn Space>> {
    use ConeSpec::*;
    let thorough = tier == "thorough";
    let s0 = vec![SettingsSpec::default()];
    let mut v: Vec<Box<dyn Space>> = vec![];
    let lists: Vec<(Vec<ConeSpec>, usize)> = vec![
        (vec![NN(3), SOC(3)], 3),
        (vec![Zero(2), NN(2), Exp], 3),
        (vec![Pow(0.25), NN(2)], 2),
        (vec![PSD(2), NN(2)], 2),
        (vec![NN(2), SOC(5), NN(1)], 3),
        (vec![GenPow(vec![0.5, 0.5], 1), NN(2)], 2),
        (vec![NN(1), Zero(1), NN(2), SOC(2)], 3),
    ];
    for (l, n) in &lists {
        let xids: Vec<u64> = if thorough { (0..3u64.pow(*n as u32)).collect() } else { vec![5] };
        v.push(Box::new(Forms { src: Planted::new(l.clone(), *n, s0.clone(), Judge::C04, 1, xids.clone(), "default"), pairs: false }));
        if thorough {
            v.push(Box::new(Forms { src: Planted::new(l.clone(), *n, s0.clone(), Judge::C04, 0, xids, "default"), pairs: true }));
        }
    }
    // strongly infeasible bases: one row reads 0'x <= -1e21 (beyond "minus infinity"); every form must say so
    for (l, n) in [(vec![NN(3), SOC(3)], 3usize), (vec![Zero(1), NN(2), Exp], 3)] {
        v.push(Box::new(Forms { src: Planted::new(l, n, s0.clone(), Judge::C04, 0, vec![5], "default").with_minus_inf_row(), pairs: false }));
    }
    // presolve reductions under every form: the first row of each nonnegative block carries an infinite bound, so
    // blocks keep k-1 of k rows, exactly one row, or none, and the forms split, merge and reorder those blocks
    for (l, n) in [(vec![NN(2), SOC(3)], 2usize), (vec![Zero(2), NN(2), Exp], 3), (vec![NN(2), SOC(5), NN(1)], 3), (vec![NN(1), Zero(1), NN(2), SOC(2)], 3), (vec![NN(3), NN(2), SOC(3)], 3)] {
        v.push(Box::new(Forms { src: Planted::new(l, n, s0.clone(), Judge::C04, if thorough { 1 } else { 0 }, vec![5], "default").with_inf_rows(), pairs: false }));
    }
    for r in repeat_spaces(tier) {
        v.push(Box::new(r));
    }
    v.push(Box::new(FreeRun { rounds: if thorough { 500 } else { 40 } }));
    v.push(Box::new(Schedules { nthreads: 2, preemption_bound: None }));
    v.push(Box::new(Schedules { nthreads: 3, preemption_bound: if thorough { None } else { Some(2) } }));
    v
}
