//! C10 — equilibration is an exact, bounded, cone-preserving diagonal change of variables.
//! Exhaustive over sparsity patterns x row/column magnitude assignments x cone lists x equilibrate_* settings;
//! observed through the public fields of a freshly constructed solver.

use crate::dense::*;
use crate::problem::*;
use crate::util::*;
use clarabel::solver::*;
use serde_json::{json, Value};

#[derive(Clone, Debug)]
pub struct EqSet {
    pub enable: bool,
    pub max_iter: u32,
    pub min: f64,
    pub max: f64,
}

pub fn eq_settings() -> Vec<EqSet> {
    let mut v = vec![EqSet { enable: true, max_iter: 10, min: 1e-4, max: 1e4 }];
    v.push(EqSet { enable: false, max_iter: 10, min: 1e-4, max: 1e4 });
    for (min, max) in [(1e-4, 1e4), (1e-2, 1e2), (1.0, 1.0)] {
        for it in [0u32, 1, 10] {
            if !(it == 10 && min == 1e-4) {
                v.push(EqSet { enable: true, max_iter: it, min, max });
            }
        }
    }
    v
}

pub struct Equil {
    pub cones: Vec<ConeSpec>,
    pub n: usize,
    pub mags: Vec<f64>,
    pub sets: Vec<EqSet>,
}

impl Equil {
    fn m(&self) -> usize {
        cones_numel(&self.cones)
    }
    fn pmenu(&self) -> Vec<Dense> {
        // symmetric P patterns with magnitudes
        let n = self.n;
        let mut v = vec![Dense::zeros(n, n)];
        let mut i1 = Dense::eye(n);
        v.push(i1.clone());
        i1.a.iter_mut().for_each(|x| *x *= 1e8);
        v.push(i1);
        if n >= 2 {
            v.push(Dense::from_rows(&[vec![1e-8, 1.0], vec![1.0, 1e8]].iter().map(|r| { let mut r = r.clone(); r.resize(n, 0.0); r }).chain((2..n).map(|_| vec![0.0; n])).collect::<Vec<_>>(), n));
            let mut d = Dense::zeros(n, n);
            d.set(0, 1, -3.0);
            d.set(1, 0, -3.0);
            v.push(d); // no diagonal entries at all
            let mut d = Dense::zeros(n, n);
            d.set(1, 1, 1e15);
            v.push(d);
        }
        v
    }
    fn decode(&self, id: u64) -> (Prob, EqSet) {
        let (n, m) = (self.n, self.m());
        let mut d = Digits(id);
        let es = d.pick(&self.sets).clone();
        let pm = self.pmenu();
        let p = d.pick(&pm).clone();
        let p_full = d.take(2) == 1;
        let rmag: Vec<f64> = (0..m).map(|_| *d.pick(&self.mags)).collect();
        let cmag: Vec<f64> = (0..n).map(|_| *d.pick(&self.mags)).collect();
        let pat = d.take(1u64 << (m * n));
        let mut a = Dense::zeros(m, n);
        for i in 0..m {
            for j in 0..n {
                if pat >> (i * n + j) & 1 == 1 {
                    let sign = if (i + j) % 2 == 0 { 1.0 } else { -1.0 };
                    a.set(i, j, sign * rmag[i] * cmag[j]);
                }
            }
        }
        let q: Vec<f64> = (0..n).map(|j| if j % 2 == 0 { cmag[j] } else { -2.0 }).collect();
        let b: Vec<f64> = (0..m).map(|i| if i % 2 == 0 { -rmag[i] } else { 3.0 }).collect();
        (
            Prob {
                n,
                m,
                p,
                p_full,
                q,
                a,
                b,
                cones: self.cones.clone(),
            },
            es,
        )
    }
}

fn releq(a: f64, b: f64, tol: f64) -> bool {
    if a == b {
        return true;
    }
    (a - b).abs() <= tol * f64::max(a.abs(), b.abs())
}

impl Space for Equil {
    fn name(&self) -> String {
        format!(
            "equil-n{}-[{}]-mags{}",
            self.n,
            self.cones.iter().map(|c| c.tag()).collect::<Vec<_>>().join(","),
            self.mags.len()
        )
    }
    fn size(&self) -> u64 {
        let (n, m) = (self.n, self.m());
        self.sets.len() as u64 * self.pmenu().len() as u64 * 2 * (self.mags.len() as u64).pow((m + n) as u32) * (1u64 << (m * n))
    }
    fn describe(&self, id: u64) -> Value {
        let (p, es) = self.decode(id);
        json!({"problem": p.to_json(), "equilibrate_enable": es.enable, "equilibrate_max_iter": es.max_iter, "min_scaling": es.min, "max_scaling": es.max})
    }
    fn bound(&self) -> Value {
        json!({"n":self.n,"m":self.m(),"magnitudes":self.mags,"patterns":"all 2^(m*n)","settings":self.sets.len(),"P_menu":self.pmenu().len()})
    }
    fn run(&self, id: u64, ctx: &mut Ctx) -> CaseResult {
        let (p, es) = self.decode(id);
        run_equil(p, es, ctx)
    }
}

fn run_equil(p: Prob, es: EqSet, ctx: &mut Ctx) -> CaseResult {
    {
        let mut st = DefaultSettings::<f64>::default();
        st.verbose = false;
        st.equilibrate_enable = es.enable;
        st.equilibrate_max_iter = es.max_iter;
        st.equilibrate_min_scaling = es.min;
        st.equilibrate_max_scaling = es.max;
        let pcsc = p.p_csc();
        let acsc = p.a_csc();
        let solver = match guarded(|| DefaultSolver::new(&pcsc, &p.q, &acsc, &p.b, &p.api_cones(), st)) {
            Ok(s) => s,
            Err(e) => return Err(Violation::new("construction-panic", e)),
        };
        let data = &solver.data;
        let eq = &data.equilibration;
        let (n, m) = (p.n, p.m);
        ensure!(data.n == n && data.m == m && eq.d.len() == n && eq.e.len() == m, "equil-dims", "{} {}", data.n, data.m);
        let (d, e, c) = (&eq.d, &eq.e, eq.c);
        ctx.transitions += 1;
        // the user's P as the solver keeps it (upper triangle)
        let ptri = p.p.triu().to_csc();
        ensure!(data.P.is_equal_sparsity(&ptri), "equil-P-pattern-changed", "{:?}", data.P);
        ensure!(data.A.is_equal_sparsity(&acsc), "equil-A-pattern-changed", "{:?}", data.A);
        if !es.enable {
            ensure!(data.P.nzval == ptri.nzval && data.A.nzval == acsc.nzval && data.q == p.q && data.b == p.b, "equil-disabled-data-touched", "");
            ensure!(d.iter().all(|x| *x == 1.0) && e.iter().all(|x| *x == 1.0) && c == 1.0, "equil-disabled-scalings-not-identity", "d={:?} e={:?} c={}", d, e, c);
            ctx.outcome("disabled-untouched");
            return Ok(());
        }
        // bounds
        let (lo, hi) = (es.min, es.max);
        let slack = 1.0 + 64.0 * f64::EPSILON;
        for (j, &dj) in d.iter().enumerate() {
            ensure!(dj > 0.0 && dj >= lo / slack && dj <= hi * slack, "equil-d-out-of-bounds", "d[{}]={:e} not in [{:e},{:e}]", j, dj, lo, hi);
            ensure!(eq.dinv[j] == 1.0 / dj, "equil-dinv-not-reciprocal", "{} {}", eq.dinv[j], dj);
        }
        for (i, &ei) in e.iter().enumerate() {
            ensure!(ei > 0.0 && ei >= lo / slack && ei <= hi * slack, "equil-e-out-of-bounds", "e[{}]={:e} not in [{:e},{:e}]", i, ei, lo, hi);
            ensure!(eq.einv[i] == 1.0 / ei, "equil-einv-not-reciprocal", "{} {}", eq.einv[i], ei);
        }
        ensure!(c > 0.0 && c >= lo / slack && c <= hi * slack, "equil-c-out-of-bounds", "c={:e}", c);
        // entry-for-entry data relations
        let tol = 1e-13;
        for j in 0..n {
            for k in data.P.colptr[j]..data.P.colptr[j + 1] {
                let i = data.P.rowval[k];
                let want = c * d[i] * p.p.at(i, j) * d[j];
                ensure!(releq(data.P.nzval[k], want, tol), "equil-P-entry", "P[{},{}]={:e} want c*d*P*d={:e}", i, j, data.P.nzval[k], want);
            }
            for k in data.A.colptr[j]..data.A.colptr[j + 1] {
                let i = data.A.rowval[k];
                let want = e[i] * p.a.at(i, j) * d[j];
                ensure!(releq(data.A.nzval[k], want, tol), "equil-A-entry", "A[{},{}]={:e} want e*A*d={:e}", i, j, data.A.nzval[k], want);
            }
            ensure!(releq(data.q[j], c * d[j] * p.q[j], tol), "equil-q-entry", "q[{}]={:e} want {:e}", j, data.q[j], c * d[j] * p.q[j]);
        }
        for i in 0..m {
            ensure!(releq(data.b[i], e[i] * p.b[i], tol), "equil-b-entry", "b[{}]={:e} want {:e}", i, data.b[i], e[i] * p.b[i]);
        }
        // zero rows / columns and cone constancy
        let mut off = 0;
        let mut nontrivial = false;
        for cone in &p.cones {
            let k = cone.numel();
            let scalar = matches!(cone, ConeSpec::Zero(_) | ConeSpec::NN(_) | ConeSpec::SOC(1) | ConeSpec::PSD(1));
            if scalar {
                for i in off..off + k {
                    let zero_row = (0..n).all(|j| p.a.at(i, j) == 0.0);
                    if zero_row {
                        ensure!(e[i] == 1.0, "equil-zero-row-scaled", "row {} is all zero but e={:e}", i, e[i]);
                    }
                }
            } else {
                for i in off..off + k {
                    ensure!(releq(e[i], e[off], 8.0 * f64::EPSILON), "equil-e-not-constant-on-cone", "cone {} rows {}..{}: e={:?}", cone.tag(), off, off + k, &e[off..off + k]);
                }
            }
            off += k;
        }
        for j in 0..n {
            let zero_col = (0..m).all(|i| p.a.at(i, j) == 0.0) && (0..n).all(|i| p.p.at(i, j) == 0.0);
            if zero_col {
                ensure!(d[j] == 1.0, "equil-zero-col-scaled", "column {} is all zero but d={:e}", j, d[j]);
            }
            if d[j] != 1.0 {
                nontrivial = true;
            }
        }
        if nontrivial {
            ctx.nontrivial += 1;
        }
        ctx.outcome(if es.max_iter == 0 { "enabled-0-iterations" } else { "scaled" });
        Ok(())
    }
}

// ----------------------------------------------------------------------
// coincidences inside a cone: the common factor of a non-scalar cone is the mean of its rows' factors; rows
// whose own factor equals that mean exactly (first, last or any other row) are a special value of the
// correction 'mean / own factor'. Diagonal A with entries 1/f^2 gives row factors f after one pass, so every
// assignment of a small integer menu to the rows realises every such coincidence.
// ----------------------------------------------------------------------
pub struct ConeMean {
    pub cones: Vec<ConeSpec>,
}
const CM_FACTORS: [f64; 6] = [1.0, 2.0, 4.0, 8.0, 3.0, 6.0];
impl ConeMean {
    fn decode(&self, id: u64) -> (Prob, EqSet) {
        let m = cones_numel(&self.cones);
        let mut d = Digits(id);
        let mut a = Dense::zeros(m, m);
        for i in 0..m {
            let f = *d.pick(&CM_FACTORS);
            a.set(i, i, if i % 2 == 0 { 1.0 } else { -1.0 } / (f * f));
        }
        let q = vec![1.0; m];
        let b: Vec<f64> = (0..m).map(|i| if i % 2 == 0 { 1.0 } else { 3.0 }).collect();
        (Prob { n: m, m, p: Dense::zeros(m, m), p_full: false, q, a, b, cones: self.cones.clone() }, EqSet { enable: true, max_iter: 10, min: 1e-4, max: 1e4 })
    }
}
impl Space for ConeMean {
    fn name(&self) -> String {
        format!("equil-cone-mean-[{}]", self.cones.iter().map(|c| c.tag()).collect::<Vec<_>>().join(","))
    }
    fn size(&self) -> u64 {
        (CM_FACTORS.len() as u64).pow(cones_numel(&self.cones) as u32)
    }
    fn describe(&self, id: u64) -> Value {
        let (p, es) = self.decode(id);
        json!({"problem": p.to_json(), "equilibrate_enable": es.enable, "equilibrate_max_iter": es.max_iter, "min_scaling": es.min, "max_scaling": es.max})
    }
    fn bound(&self) -> Value {
        json!({"A": "diagonal, |a_ii| = 1/f^2", "row_factor_menu": CM_FACTORS, "assignments": "all"})
    }
    fn run(&self, id: u64, ctx: &mut Ctx) -> CaseResult {
        let (p, es) = self.decode(id);
        run_equil(p, es, ctx)
    }
}

pub const ASSUMPTIONS: &[&str] = &[
    "entry-for-entry relations are compared to relative 1e-13 (about 25 compounded roundings over 10 Ruiz passes); scaling bounds carry a 64-ulp slack",
    "E is required to be constant on a non-scalar cone up to 8 ulp: the code forms e_i*(mean/e_i) per row, which rounds differently per row (observed 1-ulp spread); bitwise equality would demand more than the property states",
    "singleton SOC/PSD cones count as scalar (nonnegative) cones, as the documented cone collapsing makes them",
];

pub fn spaces(tier: &str, _seed: u64) -> Vec<Box<dyn Space>> {
    use ConeSpec::*;
    let thorough = tier == "thorough";
    let m3: Vec<f64> = vec![1.0, 1e-8, 1e8];
    let m5: Vec<f64> = vec![1.0, 1e-8, 1e8, 1e-15, 1e15];
    let sets = eq_settings();
    let mut v: Vec<Box<dyn Space>> = vec![];
    let lists: Vec<Vec<ConeSpec>> = vec![
        vec![NN(3)],
        vec![Zero(1), NN(2)],
        vec![SOC(3)],
        vec![Exp],
        vec![Pow(0.5)],
        vec![GenPow(vec![0.5, 0.5], 1)],
        vec![NN(1), SOC(2)],
        vec![PSD(2)],
        vec![SOC(2), Zero(1)],
        vec![SOC(1), PSD(1), NN(1)],
        vec![],
        vec![NN(1)],
        vec![SOC(2)],
    ];
    for l in &lists {
        for n in 1..=2 {
            v.push(Box::new(Equil {
                cones: l.clone(),
                n,
                mags: if thorough || cones_numel(l) + n <= 3 { m5.clone() } else { m3.clone() },
                sets: sets.clone(),
            }));
        }
    }
    for l in [vec![SOC(4)], vec![SOC(5)], vec![Exp], vec![Pow(0.5)], vec![GenPow(vec![0.5, 0.5], 2)], vec![PSD(2)], vec![NN(1), SOC(4)], vec![SOC(3), Exp]] {
        v.push(Box::new(ConeMean { cones: l }));
    }
    if thorough {
        v.push(Box::new(ConeMean { cones: vec![SOC(6)] }));
        v.push(Box::new(ConeMean { cones: vec![PSD(3)] }));
        v.push(Box::new(ConeMean { cones: vec![SOC(4), SOC(4)] }));
    }
    if thorough {
        for l in [vec![NN(2), SOC(2)], vec![Exp, NN(1)], vec![SOC(4)]] {
            v.push(Box::new(Equil { cones: l, n: 2, mags: m3.clone(), sets: sets.clone() }));
        }
        v.push(Box::new(Equil { cones: vec![NN(1), SOC(2)], n: 3, mags: m3.clone(), sets: sets.clone() }));
    }
    v
}
