//! C19 — saving a problem to JSON and loading it back reproduces the same problem.
//! (round trips) every problem of a small family x equilibration/presolve x every settings field
//! changed one (thorough: two) at a time, with and without a settings override at load;
//! (faults) every truncation, every single-byte deletion and every single-byte substitution
//! (16-character menu) of saved files.

use super::sweep::planted;
use crate::dense::*;
use crate::problem::*;
use crate::solve::*;
use crate::util::*;
use clarabel::solver::*;
use serde_json::{json, Value};
use std::io::{Read, Seek, SeekFrom, Write};

fn scratch_file() -> std::fs::File {
    // an anonymous read/write file per call (unlinked immediately)
    let dir = std::env::temp_dir();
    let path = dir.join(format!("clmc-c19-{}-{:?}.json", std::process::id(), std::thread::current().id()));
    let f = std::fs::OpenOptions::new().read(true).write(true).create(true).truncate(true).open(&path).expect("scratch file");
    let _ = std::fs::remove_file(&path);
    f
}

fn save_bytes(solver: &DefaultSolver<f64>) -> Result<Vec<u8>, String> {
    let mut f = scratch_file();
    solver.save_to_file(&mut f).map_err(|e| format!("{}", e))?;
    f.seek(SeekFrom::Start(0)).unwrap();
    let mut v = vec![];
    f.read_to_end(&mut v).unwrap();
    Ok(v)
}

fn load_bytes(bytes: &[u8], settings: Option<DefaultSettings<f64>>) -> Result<Result<DefaultSolver<f64>, String>, String> {
    let mut f = scratch_file();
    f.write_all(bytes).unwrap();
    f.seek(SeekFrom::Start(0)).unwrap();
    guarded(move || DefaultSolver::<f64>::load_from_file(&mut f, settings).map_err(|e| format!("{}", e)))
}

// ---- settings variants: every field at a non-default value ----
fn settings_variants() -> Vec<(&'static str, Box<dyn Fn(&mut DefaultSettings<f64>) + Sync + Send>)> {
    let mut v: Vec<(&'static str, Box<dyn Fn(&mut DefaultSettings<f64>) + Sync + Send>)> = vec![];
    macro_rules! var {
        ($name:expr, $f:expr) => {
            v.push(($name, Box::new($f)));
        };
    }
    var!("max_iter", |s: &mut DefaultSettings<f64>| s.max_iter = 57);
    var!("time_limit=0", |s: &mut DefaultSettings<f64>| s.time_limit = 0.0);
    var!("time_limit=1.5", |s: &mut DefaultSettings<f64>| s.time_limit = 1.5);
    var!("time_limit=MAX/2", |s: &mut DefaultSettings<f64>| s.time_limit = f64::MAX / 2.0);
    var!("verbose", |s: &mut DefaultSettings<f64>| s.verbose = true);
    var!("max_step_fraction", |s: &mut DefaultSettings<f64>| s.max_step_fraction = 0.95);
    var!("tol_gap_abs", |s: &mut DefaultSettings<f64>| s.tol_gap_abs = 3e-7);
    var!("tol_gap_rel", |s: &mut DefaultSettings<f64>| s.tol_gap_rel = 3e-7);
    var!("tol_feas", |s: &mut DefaultSettings<f64>| s.tol_feas = 3e-7);
    var!("tol_infeas_abs", |s: &mut DefaultSettings<f64>| s.tol_infeas_abs = 3e-7);
    var!("tol_infeas_rel", |s: &mut DefaultSettings<f64>| s.tol_infeas_rel = 3e-7);
    var!("tol_ktratio", |s: &mut DefaultSettings<f64>| s.tol_ktratio = 3e-5);
    var!("reduced_tol_gap_abs", |s: &mut DefaultSettings<f64>| s.reduced_tol_gap_abs = 1e-3);
    var!("reduced_tol_gap_rel", |s: &mut DefaultSettings<f64>| s.reduced_tol_gap_rel = 1e-3);
    var!("reduced_tol_feas", |s: &mut DefaultSettings<f64>| s.reduced_tol_feas = 1e-3);
    var!("reduced_tol_infeas_abs", |s: &mut DefaultSettings<f64>| s.reduced_tol_infeas_abs = 1e-11);
    var!("reduced_tol_infeas_rel", |s: &mut DefaultSettings<f64>| s.reduced_tol_infeas_rel = 1e-3);
    var!("reduced_tol_ktratio", |s: &mut DefaultSettings<f64>| s.reduced_tol_ktratio = 1e-3);
    var!("equilibrate_enable", |s: &mut DefaultSettings<f64>| s.equilibrate_enable = false);
    var!("equilibrate_max_iter", |s: &mut DefaultSettings<f64>| s.equilibrate_max_iter = 3);
    var!("equilibrate_min_scaling", |s: &mut DefaultSettings<f64>| s.equilibrate_min_scaling = 1e-2);
    var!("equilibrate_max_scaling", |s: &mut DefaultSettings<f64>| s.equilibrate_max_scaling = 1e2);
    var!("linesearch_backtrack_step", |s: &mut DefaultSettings<f64>| s.linesearch_backtrack_step = 0.7);
    var!("min_switch_step_length", |s: &mut DefaultSettings<f64>| s.min_switch_step_length = 0.2);
    var!("min_terminate_step_length", |s: &mut DefaultSettings<f64>| s.min_terminate_step_length = 1e-5);
    var!("max_threads", |s: &mut DefaultSettings<f64>| s.max_threads = 2);
    var!("direct_solve_method", |s: &mut DefaultSettings<f64>| s.direct_solve_method = "qdldl".to_string());
    var!("static_regularization_enable", |s: &mut DefaultSettings<f64>| s.static_regularization_enable = false);
    var!("static_regularization_constant", |s: &mut DefaultSettings<f64>| s.static_regularization_constant = 1e-7);
    var!("static_regularization_proportional", |s: &mut DefaultSettings<f64>| s.static_regularization_proportional = 1e-30);
    var!("dynamic_regularization_enable", |s: &mut DefaultSettings<f64>| s.dynamic_regularization_enable = false);
    var!("dynamic_regularization_eps", |s: &mut DefaultSettings<f64>| s.dynamic_regularization_eps = 1e-12);
    var!("dynamic_regularization_delta", |s: &mut DefaultSettings<f64>| s.dynamic_regularization_delta = 1e-6);
    var!("iterative_refinement_enable", |s: &mut DefaultSettings<f64>| s.iterative_refinement_enable = false);
    var!("iterative_refinement_reltol", |s: &mut DefaultSettings<f64>| s.iterative_refinement_reltol = 1e-12);
    var!("iterative_refinement_abstol", |s: &mut DefaultSettings<f64>| s.iterative_refinement_abstol = 1e-11);
    var!("iterative_refinement_max_iter", |s: &mut DefaultSettings<f64>| s.iterative_refinement_max_iter = 4);
    var!("iterative_refinement_stop_ratio", |s: &mut DefaultSettings<f64>| s.iterative_refinement_stop_ratio = 3.0);
    var!("presolve_enable", |s: &mut DefaultSettings<f64>| s.presolve_enable = false);
    var!("chordal_decomposition_enable", |s: &mut DefaultSettings<f64>| s.chordal_decomposition_enable = false);
    var!("chordal_decomposition_merge_method", |s: &mut DefaultSettings<f64>| s.chordal_decomposition_merge_method = "parent_child".to_string());
    var!("chordal_decomposition_compact", |s: &mut DefaultSettings<f64>| s.chordal_decomposition_compact = false);
    var!("chordal_decomposition_complete_dual", |s: &mut DefaultSettings<f64>| s.chordal_decomposition_complete_dual = false);
    v
}

fn problems() -> Vec<Prob> {
    use ConeSpec::*;
    let lists: Vec<(Vec<ConeSpec>, usize)> = vec![
        (vec![Zero(2)], 2),
        (vec![NN(3)], 2),
        (vec![SOC(3)], 2),
        (vec![SOC(5)], 3),
        (vec![Exp], 2),
        (vec![Pow(0.25)], 2),
        (vec![GenPow(vec![0.2, 0.3, 0.5], 2)], 3),
        (vec![PSD(2)], 2),
        (vec![PSD(3)], 3),
        (vec![NN(2), SOC(3)], 3),
        (vec![Zero(1), Exp], 2),
        (vec![Pow(0.5), NN(1)], 2),
        (vec![PSD(2), NN(1)], 2),
        (vec![NN(1), NN(0), SOC(1), PSD(1)], 2),
        (vec![], 2),
    ];
    let mut out = vec![];
    for (l, n) in lists {
        let pm = p_menu(n);
        out.push(planted(&l, n, 5, 0, 1, 2, &pm[pm.len() - 1], true));
        out.push(planted(&l, n, 1, 1, 0, 1, &pm[0], false));
        // a badly scaled twin (equivalent by a change of variables and positive row scalings of
        // scalar cones), so that the stored equilibration is not the identity
        let mut t = planted(&l, n, 5, 0, 1, 2, &pm[pm.len() - 1], false);
        let cs = [0.5, 9.0, 2.0];
        for j in 0..t.n {
            for i in 0..t.m {
                let v = t.a.at(i, j);
                t.a.set(i, j, v * cs[j % 3]);
            }
            t.q[j] *= cs[j % 3];
            for i in 0..t.n {
                let v = t.p.at(i, j);
                t.p.set(i, j, v * cs[j % 3] * cs[i % 3]);
            }
        }
        let rs = [7.0, 0.125, 30.0, 1.0, 0.02];
        let mut off = 0;
        for c in &t.cones.clone() {
            if matches!(c, Zero(_) | NN(_)) {
                for i in off..off + c.numel() {
                    for j in 0..t.n {
                        let v = t.a.at(i, j);
                        t.a.set(i, j, v * rs[i % 5]);
                    }
                    t.b[i] *= rs[i % 5];
                }
            }
            off += c.numel();
        }
        out.push(t);
    }
    // extreme finite values and an empty A
    let mut p = planted(&[NN(2)], 2, 5, 0, 0, 1, &Dense::eye(2), false);
    p.a.set(0, 0, 1e300);
    p.a.set(1, 1, -4.9e-324);
    p.q[0] = -1e-300;
    p.b[1] = 1e19;
    out.push(p);
    out
}

// ----------------------------------------------------------------------
// round trips
// ----------------------------------------------------------------------
pub struct RoundTrip {
    pub pairs: bool, // two settings fields at a time
    /// `settings` is a public field of the solver: flip equilibrate_enable after construction, before saving
    /// (the data were scaled -- or not -- according to the flag at construction time)
    pub toggle_after_build: bool,
}
impl RoundTrip {
    fn nvariants(&self) -> u64 {
        let k = settings_variants().len() as u64;
        if self.pairs {
            1 + k + k * (k - 1) / 2
        } else {
            1 + k
        }
    }
    fn decode(&self, id: u64) -> (usize, bool, bool, u64, u64) {
        let mut d = Digits(id);
        let pid = d.take(problems().len() as u64) as usize;
        let presolve_active = d.take(2) == 1;
        let override_at_load = d.take(2) == 1;
        let vslot = d.take(self.nvariants());
        (pid, presolve_active, override_at_load, vslot, 0)
    }
    fn variant_ids(&self, slot: u64) -> Vec<usize> {
        let k = settings_variants().len() as u64;
        if slot == 0 {
            vec![]
        } else if slot <= k {
            vec![(slot - 1) as usize]
        } else {
            let mut r = slot - k - 1;
            let mut i = 0u64;
            while r >= k - 1 - i {
                r -= k - 1 - i;
                i += 1;
            }
            vec![i as usize, (i + 1 + r) as usize]
        }
    }
}

fn settings_equal(a: &DefaultSettings<f64>, b: &DefaultSettings<f64>) -> bool {
    format!("{:?}", a) == format!("{:?}", b)
}

impl Space for RoundTrip {
    fn name(&self) -> String {
        format!("roundtrip-{}{}", if self.pairs { "settings-pairs" } else { "settings-singles" }, if self.toggle_after_build { "-equilibrate-flag-flipped-after-build" } else { "" })
    }
    fn size(&self) -> u64 {
        problems().len() as u64 * 2 * 2 * self.nvariants()
    }
    fn describe(&self, id: u64) -> Value {
        let (pid, pa, ov, slot, _) = self.decode(id);
        let names: Vec<&str> = self.variant_ids(slot).iter().map(|&i| settings_variants()[i].0).collect();
        json!({"problem": problems()[pid].to_json(), "presolve_reduction_active": pa, "settings_override_at_load": ov, "non_default_settings": names})
    }
    fn bound(&self) -> Value {
        json!({"problems": problems().len(), "settings_fields": settings_variants().len(), "fields_changed_at_a_time": if self.pairs {2} else {1}})
    }
    fn debug(&self, id: u64) -> String {
        let (pid, presolve_active, _ov, _slot, _) = self.decode(id);
        let mut p = problems()[pid].clone();
        let mut st = DefaultSettings::<f64>::default();
        st.verbose = false;
        if presolve_active {
            let mut off = 0;
            for c in &p.cones {
                if matches!(c, ConeSpec::NN(k) if *k > 0) {
                    p.b[off] = 1e20;
                    break;
                }
                off += c.numel();
            }
        }
        let mut solver = p.build(st);
        let bytes = save_bytes(&solver).unwrap();
        let mut loaded = load_bytes(&bytes, None).unwrap().unwrap();
        solver.solve();
        loaded.solve();
        format!(
            "e={:?}\nfile={}\noriginal: {:?} {} | loaded: {:?} {}",
            solver.data.equilibration.e,
            String::from_utf8_lossy(&bytes),
            solver.solution.status,
            solver.solution.obj_val,
            loaded.solution.status,
            loaded.solution.obj_val
        )
    }
    fn run(&self, id: u64, ctx: &mut Ctx) -> CaseResult {
        let (pid, presolve_active, override_at_load, slot, _) = self.decode(id);
        let mut p = problems()[pid].clone();
        let vars = settings_variants();
        let mut st = DefaultSettings::<f64>::default();
        st.verbose = false;
        for i in self.variant_ids(slot) {
            (vars[i].1)(&mut st);
        }
        st.verbose = false;
        st.max_iter = std::cmp::min(st.max_iter, 100);
        let mut reduced = false;
        if presolve_active {
            // put an infinite bound into the first nonnegative row, if there is one
            let mut off = 0;
            for c in &p.cones {
                if matches!(c, ConeSpec::NN(k) if *k > 0) {
                    p.b[off] = 1e20;
                    reduced = st.presolve_enable;
                    break;
                }
                off += c.numel();
            }
        }
        let mut solver = guarded(|| p.build(st.clone())).map_err(|e| Violation::new("machinery-build-panic", e))?;
        let equil_at_build = st.equilibrate_enable;
        if self.toggle_after_build {
            solver.settings.equilibrate_enable = !equil_at_build;
            st.equilibrate_enable = !equil_at_build;
        }
        let bytes = save_bytes(&solver).map_err(|e| Violation::new("save-failed", e))?;
        ctx.transitions += 2;
        // ---- file contents vs. the user's originals
        let file: Value = serde_json::from_slice(&bytes).map_err(|e| Violation::new("saved-file-not-json", format!("{}", e)))?;
        if !reduced {
            let tol = if equil_at_build { 4.0 * f64::EPSILON } else { 0.0 };
            let cmp = |got: &Value, want: &[f64], what: &str| -> CaseResult {
                let g: Vec<f64> = got.as_array().map(|a| a.iter().map(|x| x.as_f64().unwrap_or(f64::NAN)).collect()).unwrap_or_default();
                ensure!(g.len() == want.len(), "file-length", "{}: {} vs {}", what, g.len(), want.len());
                for k in 0..g.len() {
                    let ok = g[k] == want[k] || (g[k] - want[k]).abs() <= tol * f64::max(g[k].abs(), want[k].abs());
                    ensure!(ok, "file-values-differ-from-original", "{}[{}] saved {:e} original {:e} (equilibrated at build {})", what, k, g[k], want[k], equil_at_build);
                }
                Ok(())
            };
            let ptri = p.p.triu().to_csc();
            let acsc = p.a.to_csc();
            cmp(&file["P"]["nzval"], &ptri.nzval, "P.nzval")?;
            cmp(&file["A"]["nzval"], &acsc.nzval, "A.nzval")?;
            cmp(&file["q"], &p.q, "q")?;
            let bcap: Vec<f64> = p.b.iter().map(|v| f64::min(*v, 1e20)).collect();
            cmp(&file["b"], &bcap, "b")?;
            let idx = |v: &Value| -> Vec<usize> { v.as_array().map(|a| a.iter().map(|x| x.as_u64().unwrap_or(u64::MAX) as usize).collect()).unwrap_or_default() };
            ensure!(idx(&file["P"]["colptr"]) == ptri.colptr && idx(&file["P"]["rowval"]) == ptri.rowval, "file-P-pattern", "");
            ensure!(idx(&file["A"]["colptr"]) == acsc.colptr && idx(&file["A"]["rowval"]) == acsc.rowval, "file-A-pattern", "");
        }
        // ---- load
        let ovs = if override_at_load {
            let mut o = DefaultSettings::<f64>::default();
            o.verbose = false;
            o.max_iter = 33;
            o.tol_feas = 2e-8;
            Some(o)
        } else {
            None
        };
        let loaded = load_bytes(&bytes, ovs.clone());
        let mut loaded = match loaded {
            Err(panic) => return Err(Violation::new("load-of-valid-file-panicked", panic)),
            Ok(Err(e)) => return Err(Violation::new("load-of-valid-file-failed", e)),
            Ok(Ok(s)) => s,
        };
        match &ovs {
            Some(o) => ensure!(settings_equal(&loaded.settings, o), "override-settings-not-used", "{:?}", loaded.settings),
            None => ensure!(
                settings_equal(&loaded.settings, &st),
                "settings-differ-after-round-trip",
                "saved {:?}\nloaded {:?}",
                st,
                loaded.settings
            ),
        }
        // ---- same verdict and objective
        if override_at_load {
            ctx.outcome("override-honoured");
            return Ok(());
        }
        // cones of the loaded problem: the collapsed (and possibly reduced) list of the original
        ensure!(loaded.data.cones == solver.data.cones, "cones-differ-after-round-trip", "{:?} vs {:?}", loaded.data.cones, solver.data.cones);
        ensure!(loaded.data.n == solver.data.n && loaded.data.m == solver.data.m, "dims-differ-after-round-trip", "");
        guarded(|| solver.solve()).map_err(|e| Violation::new("machinery-solve-panic", e))?;
        guarded(|| loaded.solve()).map_err(|e| Violation::new("loaded-solver-panicked", e))?;
        let (a, b) = (&solver.solution, &loaded.solution);
        if st.time_limit < 1.0 {
            // both must stop on the clock
            ensure!(a.status == b.status, "verdict-differs-after-round-trip", "{:?} vs {:?}", a.status, b.status);
            ctx.outcome("time-limited");
            return Ok(());
        }
        if self.toggle_after_build {
            // the two solvers work with different scalings (one equilibrated at construction, the other not): what
            // is compared is the file (above), the settings, and that definite verdicts agree
            let class = |s: SolverStatus| match s {
                SolverStatus::Solved | SolverStatus::AlmostSolved => 1,
                SolverStatus::PrimalInfeasible | SolverStatus::AlmostPrimalInfeasible => 2,
                SolverStatus::DualInfeasible | SolverStatus::AlmostDualInfeasible => 3,
                _ => 0,
            };
            let (ca, cb) = (class(a.status), class(b.status));
            ensure!(ca == 0 || cb == 0 || ca == cb || (ca > 1 && cb > 1), "verdict-differs-after-round-trip", "original {:?} loaded {:?}", a.status, b.status);
            if ca == 1 && cb == 1 {
                let tol = 1e-4 * f64::max(1.0, a.obj_val.abs());
                ensure!((a.obj_val - b.obj_val).abs() <= tol, "objective-differs-after-round-trip", "{} vs {}", a.obj_val, b.obj_val);
            }
            ctx.nontrivial += 1;
            ctx.outcome("flag-flipped-roundtrip");
            return Ok(());
        }
        // With equilibration the loaded data differ from the solver's by the rounding of one scale/unscale round
        // trip (the property allows exactly that). On knife-edge instances -- a kept right-hand side of 1e20,
        // iterative refinement switched off, a generalised power cone -- those ulps can turn Solved into
        // InsufficientProgress or back. An inconclusive status therefore carries no expectation there; definite
        // verdict classes must agree. With equilibration off the round trip is exact and statuses, objectives
        // and iteration counts are compared bit for bit below.
        if (st.equilibrate_enable || equil_at_build) && a.status != b.status {
            let class = |s: SolverStatus| match s {
                SolverStatus::Solved | SolverStatus::AlmostSolved => 1,
                SolverStatus::PrimalInfeasible | SolverStatus::AlmostPrimalInfeasible => 2,
                SolverStatus::DualInfeasible | SolverStatus::AlmostDualInfeasible => 3,
                _ => 0,
            };
            let (ca, cb) = (class(a.status), class(b.status));
            ensure!(ca == 0 || cb == 0 || ca == cb, "verdict-differs-after-round-trip", "original {:?} loaded {:?}", a.status, b.status);
            ctx.outcome("equilibrated-roundtrip:status-differs-within-class-or-inconclusive");
            return Ok(());
        }
        ensure!(a.status == b.status, "verdict-differs-after-round-trip", "original {:?} loaded {:?}", a.status, b.status);
        if a.status == SolverStatus::Solved {
            let tol = 1e-6 * f64::max(1.0, a.obj_val.abs());
            ensure!((a.obj_val - b.obj_val).abs() <= tol, "objective-differs-after-round-trip", "{} vs {}", a.obj_val, b.obj_val);
            if !st.equilibrate_enable && !equil_at_build && !reduced {
                ensure!(a.obj_val.to_bits() == b.obj_val.to_bits() && a.iterations == b.iterations, "exact-round-trip-not-exact", "{} vs {}", a.obj_val, b.obj_val);
            }
        }
        ctx.nontrivial += 1;
        ctx.outcome(&format!("roundtrip-{}", status_name(a.status)));
        Ok(())
    }
}

// ----------------------------------------------------------------------
// cone parameters: every exponent (vector) of a grid, in particular those whose floating-point
// sum is 1 +- a few ulp (accepted by the constructor, so they must survive the round trip)
// ----------------------------------------------------------------------
pub struct ConeParams;
impl ConeParams {
    fn cones() -> Vec<ConeSpec> {
        let mut v = vec![];
        for k in 1..=19 {
            v.push(ConeSpec::Pow(k as f64 / 20.0));
        }
        for a in [1e-3, 1.0 - 1e-3, 1.0 / 3.0, 1e-8] {
            v.push(ConeSpec::Pow(a));
        }
        // normalised integer ratios: pairs, triples, quadruples
        for i in 1..=7u32 {
            for j in 1..=7u32 {
                let t = (i + j) as f64;
                v.push(ConeSpec::GenPow(vec![i as f64 / t, j as f64 / t], 1));
            }
        }
        for i in 1..=6u32 {
            for j in 1..=6u32 {
                for k in 1..=6u32 {
                    let t = (i + j + k) as f64;
                    v.push(ConeSpec::GenPow(vec![i as f64 / t, j as f64 / t, k as f64 / t], 2));
                }
            }
        }
        for id in 0..81u32 {
            let w: Vec<f64> = (0..4).map(|d| 1.0 + ((id / 3u32.pow(d)) % 3) as f64).collect();
            let t: f64 = w.iter().sum();
            v.push(ConeSpec::GenPow(w.iter().map(|x| x / t).collect(), 1));
        }
        // every two-decimal triple a + b + c = 1 (as literals: each entry is rounded separately, so the
        // floating-point sum is 1, 1 - ulp/2 or 1 + ulp depending on the triple)
        for i in 1..=98u32 {
            for j in 1..=(99 - i) {
                let k = 100 - i - j;
                v.push(ConeSpec::GenPow(vec![i as f64 / 100.0, j as f64 / 100.0, k as f64 / 100.0], 1));
            }
        }
        // decimal literals as a user would type them
        for a in [vec![0.34, 0.56, 0.1], vec![0.1, 0.2, 0.7], vec![0.3, 0.3, 0.4], vec![0.15, 0.35, 0.5], vec![0.6, 0.3, 0.1], vec![0.1, 0.9], vec![0.35, 0.65], vec![1.0]] {
            v.push(ConeSpec::GenPow(a, 2));
        }
        v
    }
}
impl Space for ConeParams {
    fn name(&self) -> String {
        "roundtrip-cone-parameters".into()
    }
    fn size(&self) -> u64 {
        Self::cones().len() as u64 * 2
    }
    fn describe(&self, id: u64) -> Value {
        json!({"cone": Self::cones()[(id / 2) as usize].tag(), "equilibrate": id % 2 == 0})
    }
    fn bound(&self) -> Value {
        json!({"power_exponents": "k/20, 1e-3, 1-1e-3, 1/3, 1e-8", "genpow_exponents": "all normalised integer ratios: pairs 1..7, triples 1..6, quadruples 1..3; all two-decimal triples summing to 1; decimal literals"})
    }
    fn run(&self, id: u64, ctx: &mut Ctx) -> CaseResult {
        let cone = Self::cones()[(id / 2) as usize].clone();
        let n = 2;
        let p = planted(&[cone.clone(), ConeSpec::NN(1)], n, 5, 0, 0, 1, &Dense::eye(n), false);
        let mut st = DefaultSettings::<f64>::default();
        st.verbose = false;
        st.equilibrate_enable = id % 2 == 0;
        // a parameter the constructor itself rejects is not a well-formed problem
        let Ok(mut solver) = guarded(|| p.build(st.clone())) else {
            ctx.outcome("rejected-by-constructor(skipped)");
            return Ok(());
        };
        let bytes = save_bytes(&solver).map_err(|e| Violation::new("save-failed", e))?;
        let mut loaded = match load_bytes(&bytes, None) {
            Err(panic) => return Err(Violation::new("load-of-valid-file-panicked", panic)),
            Ok(Err(e)) => return Err(Violation::new("load-of-valid-file-failed", format!("{} for cone {}", e, cone.tag()))),
            Ok(Ok(s)) => s,
        };
        ctx.transitions += 2;
        ensure!(loaded.data.cones == solver.data.cones, "cones-differ-after-round-trip", "{:?} vs {:?}", loaded.data.cones, solver.data.cones);
        guarded(|| solver.solve()).map_err(|e| Violation::new("machinery-solve-panic", e))?;
        guarded(|| loaded.solve()).map_err(|e| Violation::new("loaded-solver-panicked", e))?;
        let (a, b) = (&solver.solution, &loaded.solution);
        ensure!(a.status == b.status, "verdict-differs-after-round-trip", "original {:?} loaded {:?}", a.status, b.status);
        if !st.equilibrate_enable {
            ensure!(a.obj_val.to_bits() == b.obj_val.to_bits() && a.iterations == b.iterations, "exact-round-trip-not-exact", "{} vs {}", a.obj_val, b.obj_val);
        } else if a.status == SolverStatus::Solved {
            ensure!((a.obj_val - b.obj_val).abs() <= 1e-6 * f64::max(1.0, a.obj_val.abs()), "objective-differs-after-round-trip", "{} vs {}", a.obj_val, b.obj_val);
        }
        ctx.nontrivial += 1;
        ctx.outcome(&format!("roundtrip-{}", status_name(a.status)));
        Ok(())
    }
}

// ----------------------------------------------------------------------
// faults
// ----------------------------------------------------------------------
const MENU: &[u8] = b"\"{}[],:09-e.x 1";

pub struct Faults {
    pub which: usize,
    bytes: Vec<u8>,
}
impl Faults {
    pub fn new(which: usize) -> Self {
        use ConeSpec::*;
        let p = match which {
            0 => planted(&[NN(2), SOC(3)], 2, 5, 0, 0, 1, &p_menu(2)[3], false),
            1 => planted(&[Exp, GenPow(vec![0.5, 0.5], 1)], 2, 1, 0, 0, 2, &Dense::zeros(2, 2), false),
            2 => planted(&[PSD(2), Zero(1), Pow(0.25)], 2, 1, 0, 0, 1, &Dense::eye(2), false),
            _ => planted(&[NN(1)], 1, 1, 0, 0, 0, &Dense::zeros(1, 1), false),
        };
        let mut st = DefaultSettings::<f64>::default();
        st.verbose = false;
        let solver = p.build(st);
        let bytes = save_bytes(&solver).expect("save");
        Self { which, bytes }
    }
    fn decode(&self, id: u64) -> (String, Vec<u8>) {
        let n = self.bytes.len() as u64;
        if id < n {
            // truncation to length id
            (format!("truncate to {} bytes", id), self.bytes[..id as usize].to_vec())
        } else if id < 2 * n {
            let k = (id - n) as usize;
            let mut b = self.bytes.clone();
            b.remove(k);
            (format!("delete byte {} ({:?})", k, self.bytes[k] as char), b)
        } else {
            let r = id - 2 * n;
            let k = (r / MENU.len() as u64) as usize;
            let c = MENU[(r % MENU.len() as u64) as usize];
            let mut b = self.bytes.clone();
            b[k] = c;
            (format!("byte {} {:?} -> {:?}", k, self.bytes[k] as char, c as char), b)
        }
    }
}
impl Space for Faults {
    fn name(&self) -> String {
        format!("file-faults-{}", self.which)
    }
    fn size(&self) -> u64 {
        let n = self.bytes.len() as u64;
        2 * n + n * MENU.len() as u64
    }
    fn describe(&self, id: u64) -> Value {
        let (what, b) = self.decode(id);
        json!({"fault": what, "file": String::from_utf8_lossy(&b)})
    }
    fn bound(&self) -> Value {
        json!({"file_bytes": self.bytes.len(), "faults": "all truncations, all single-byte deletions, all single-byte substitutions from a 16-character menu"})
    }
    fn run(&self, id: u64, ctx: &mut Ctx) -> CaseResult {
        let (what, b) = self.decode(id);
        judge_faulted(&self.bytes, &what, &b, ctx)
    }
}

fn judge_faulted(original: &[u8], what: &str, b: &[u8], ctx: &mut Ctx) -> CaseResult {
    {
        ctx.transitions += 1;
        match load_bytes(b, None) {
            Err(panic) => {
                let site = super::sweep::panic_site(&panic);
                Err(Violation::new(format!("load-panics-on-malformed-file:{}", site), format!("{}: {}", what, panic)))
            }
            Ok(Err(_e)) => {
                ctx.outcome("rejected-with-error");
                Ok(())
            }
            Ok(Ok(mut solver)) => {
                // the fault produced another well-formed file (e.g. a changed digit): the solver must be consistent
                let d = &solver.data;
                ensure!(d.P.check_format().is_ok() && d.A.check_format().is_ok(), "loaded-solver-bad-matrix-format", "{}", what);
                ensure!(d.P.m == d.n && d.P.n == d.n && d.A.n == d.n && d.A.m == d.m && d.q.len() == d.n && d.b.len() == d.m, "loaded-solver-inconsistent-dims", "{}", what);
                let rows: usize = d.cones.iter().map(|c| ConeRows::rows(c)).sum();
                ensure!(rows == d.m, "loaded-solver-cones-inconsistent", "{}", what);
                if b == original {
                    ctx.outcome("fault-is-identity");
                } else {
                    ctx.outcome("another-valid-file");
                    ctx.nontrivial += 1;
                }
                // it must also be usable -- provided the fault hit the data and not a settings value
                // (arbitrary settings values are outside the well-formedness assumed for solves)
                let mut dflt = DefaultSettings::<f64>::default();
                dflt.verbose = false;
                if !settings_equal(&solver.settings, &dflt) {
                    ctx.outcome("another-valid-file(settings changed; not solved)");
                    return Ok(());
                }
                solver.settings.max_iter = 20;
                guarded(|| solver.solve()).map_err(|e| Violation::new("loaded-solver-panics-in-solve", format!("{}: {}", what, e)))?;
                Ok(())
            }
        }
    }
}

// ----------------------------------------------------------------------
// index faults: every integer of the two matrix encodings replaced by every value of a menu around the
// dimensions (a byte-level substitution reaches few of these; bases with single-entry and empty columns)
// ----------------------------------------------------------------------
pub struct IndexFaults {
    pub which: usize,
    bytes: Vec<u8>,
    doc: Value,
    sites: Vec<(String, String, Option<usize>)>,
    menu: Vec<u64>,
}
impl IndexFaults {
    pub fn new(which: usize) -> Self {
        use ConeSpec::*;
        let mk = |cones: Vec<ConeSpec>, n: usize, pd: &[f64], a: &[(usize, usize, f64)], b: Vec<f64>, q: Vec<f64>| {
            let m = cones_numel(&cones);
            let mut p = Dense::zeros(n, n);
            for (i, v) in pd.iter().enumerate() {
                p.set(i, i, *v);
            }
            let mut am = Dense::zeros(m, n);
            for (i, j, v) in a {
                am.set(*i, *j, *v);
            }
            Prob { n, m, p, p_full: false, q, a: am, b, cones }
        };
        let p = match which {
            // every column of A and two of P hold exactly one entry; P has an empty column
            0 => mk(vec![NN(3)], 3, &[1.0, 0.0, 2.0], &[(0, 0, -1.0), (1, 1, -1.0), (2, 2, -1.0)], vec![1.0, 1.0, 1.0], vec![1.0, 1.0, 1.0]),
            // an empty column in A, single-entry columns, a two-entry column
            1 => mk(vec![Zero(1), NN(3)], 3, &[0.0, 1.0, 1.0], &[(0, 0, 1.0), (1, 0, -1.0), (2, 1, -1.0)], vec![1.0, 2.0, 1.0, 1.0], vec![1.0, 1.0, 0.0]),
            _ => planted(&[NN(2), SOC(3)], 2, 5, 0, 0, 1, &p_menu(2)[3], false),
        };
        let mut st = DefaultSettings::<f64>::default();
        st.verbose = false;
        let solver = p.build(st);
        let bytes = save_bytes(&solver).expect("save");
        let doc: Value = serde_json::from_slice(&bytes).expect("own file parses");
        let mut sites = vec![];
        let mut menu: Vec<u64> = vec![0, 1, 2, 1_000_000, u32::MAX as u64 + 1];
        for mat in ["P", "A"] {
            for f in ["m", "n"] {
                sites.push((mat.to_string(), f.to_string(), None));
                let v = doc[mat][f].as_u64().unwrap();
                menu.extend([v.saturating_sub(1), v, v + 1]);
            }
            for f in ["colptr", "rowval"] {
                let len = doc[mat][f].as_array().unwrap().len();
                for k in 0..len {
                    sites.push((mat.to_string(), f.to_string(), Some(k)));
                }
                menu.extend([len as u64, len as u64 + 1]);
            }
        }
        menu.sort();
        menu.dedup();
        Self { which, bytes, doc, sites, menu }
    }
    fn decode(&self, id: u64) -> (String, Vec<u8>) {
        let mut d = Digits(id);
        let v = *d.pick(&self.menu);
        let (mat, f, k) = d.pick(&self.sites).clone();
        let mut doc = self.doc.clone();
        let what = match k {
            Some(k) => {
                let old = doc[&mat][&f][k].clone();
                doc[&mat][&f][k] = json!(v);
                format!("{}.{}[{}]: {} -> {}", mat, f, k, old, v)
            }
            None => {
                let old = doc[&mat][&f].clone();
                doc[&mat][&f] = json!(v);
                format!("{}.{}: {} -> {}", mat, f, old, v)
            }
        };
        (what, serde_json::to_vec(&doc).unwrap())
    }
}
impl Space for IndexFaults {
    fn name(&self) -> String {
        format!("file-index-faults-{}", self.which)
    }
    fn size(&self) -> u64 {
        (self.menu.len() * self.sites.len()) as u64
    }
    fn describe(&self, id: u64) -> Value {
        let (what, b) = self.decode(id);
        json!({"fault": what, "file": String::from_utf8_lossy(&b)})
    }
    fn bound(&self) -> Value {
        json!({"sites": self.sites.len(), "values": self.menu, "faults": "every integer of P and A (m, n, colptr[k], rowval[k]) replaced by every menu value"})
    }
    fn run(&self, id: u64, ctx: &mut Ctx) -> CaseResult {
        let (what, b) = self.decode(id);
        // the reference for "fault is identity" is the re-serialised unchanged document
        let same = serde_json::to_vec(&self.doc).unwrap();
        let _ = &self.bytes;
        judge_faulted(&same, &what, &b, ctx)
    }
}

// ----------------------------------------------------------------------
// stored settings vs. settings supplied at load: "a settings argument supplied at load time overrides the stored
// one" -- also when the stored one is unusable; without an override an unusable stored value is a malformed file
// ----------------------------------------------------------------------
pub struct StoredSettings;
const SS_MUT: [(&str, &str, bool); 7] = [
    ("direct_solve_method", "bogus", false),
    ("direct_solve_method", "", false),
    ("direct_solve_method", "QDLDL", false),
    ("chordal_decomposition_merge_method", "bogus", false),
    ("direct_solve_method", "qdldl", true),
    ("chordal_decomposition_merge_method", "none", true),
    ("chordal_decomposition_merge_method", "parent_child", true),
];
impl StoredSettings {
    fn base(which: usize) -> Prob {
        use ConeSpec::*;
        match which {
            0 => planted(&[NN(2), SOC(3)], 2, 5, 0, 0, 1, &p_menu(2)[3], false),
            _ => planted(&[Exp, GenPow(vec![0.5, 0.5], 1)], 2, 1, 0, 0, 2, &Dense::zeros(2, 2), false),
        }
    }
    fn overrides() -> Vec<Option<DefaultSettings<f64>>> {
        let mut d = DefaultSettings::<f64>::default();
        d.verbose = false;
        let mut a = d.clone();
        a.max_iter = 7;
        let mut b = d.clone();
        b.direct_solve_method = "qdldl".to_string();
        b.equilibrate_enable = false;
        vec![None, Some(d), Some(a), Some(b)]
    }
    fn decode(&self, id: u64) -> (usize, usize, usize) {
        let mut d = Digits(id);
        (d.take(2) as usize, d.take(SS_MUT.len() as u64) as usize, d.take(4) as usize)
    }
}
impl Space for StoredSettings {
    fn name(&self) -> String {
        "stored-settings-vs-override".into()
    }
    fn size(&self) -> u64 {
        2 * SS_MUT.len() as u64 * 4
    }
    fn describe(&self, id: u64) -> Value {
        let (b, m, o) = self.decode(id);
        json!({"problem": Self::base(b).to_json(), "stored_settings_field": SS_MUT[m].0, "stored_value": SS_MUT[m].1, "stored_value_usable": SS_MUT[m].2,
               "override": (["none", "default", "max_iter=7", "qdldl, equilibration off"][o])})
    }
    fn bound(&self) -> Value {
        json!({"bases": 2, "stored_values": SS_MUT.iter().map(|m| format!("{}={:?}", m.0, m.1)).collect::<Vec<_>>(), "overrides": 4})
    }
    fn run(&self, id: u64, ctx: &mut Ctx) -> CaseResult {
        let (b, m, o) = self.decode(id);
        let p = Self::base(b);
        let mut st = DefaultSettings::<f64>::default();
        st.verbose = false;
        let solver = p.build(st.clone());
        let bytes = save_bytes(&solver).map_err(|e| Violation::new("save-failed", e))?;
        let mut doc: Value = serde_json::from_slice(&bytes).map_err(|e| Violation::new("saved-file-not-json", format!("{}", e)))?;
        let (field, value, usable) = SS_MUT[m];
        ensure!(doc["settings"].get(field).is_some(), "saved-file-lacks-settings-field", "{}", field);
        doc["settings"][field] = json!(value);
        let file = serde_json::to_vec(&doc).unwrap();
        let ov = Self::overrides()[o].clone();
        let what = format!("stored {}={:?}, override {}", field, value, ["none", "default", "max_iter=7", "qdldl, equilibration off"][o]);
        ctx.transitions += 1;
        let loaded = match load_bytes(&file, ov.clone()) {
            Err(panic) => return Err(Violation::new(format!("load-panics:{}", super::sweep::panic_site(&panic)), format!("{}: {}", what, panic))),
            Ok(r) => r,
        };
        match (&ov, usable, loaded) {
            (None, false, Ok(_)) => Err(Violation::new("unusable-stored-settings-accepted", what)),
            (None, false, Err(_)) => {
                ctx.outcome("unusable-stored-settings-rejected");
                Ok(())
            }
            (_, _, Err(e)) => Err(Violation::new("load-rejected-although-the-settings-in-force-are-usable", format!("{}: {}", what, e))),
            (_, _, Ok(mut l)) => {
                let mut want = match &ov {
                    Some(o) => o.clone(),
                    None => {
                        let mut w = st.clone();
                        match field {
                            "direct_solve_method" => w.direct_solve_method = value.to_string(),
                            _ => w.chordal_decomposition_merge_method = value.to_string(),
                        }
                        w
                    }
                };
                ensure!(settings_equal(&l.settings, &want), if ov.is_some() { "override-settings-not-used" } else { "stored-settings-not-used" }, "{}: {:?}", what, l.settings);
                want.verbose = false;
                let mut fresh = p.build(want);
                guarded(|| {
                    l.solve();
                    fresh.solve();
                })
                .map_err(|e| Violation::new("solve-panics-after-load", format!("{}: {}", what, e)))?;
                ensure!(l.solution.status == fresh.solution.status, "verdict-differs-after-load", "{}: {:?} vs {:?}", what, l.solution.status, fresh.solution.status);
                let (a, b) = (l.solution.obj_val, fresh.solution.obj_val);
                ensure!((a - b).abs() <= 1e-6 * a.abs().max(b.abs()).max(1.0) || (a.is_nan() && b.is_nan()), "objective-differs-after-load", "{}: {} vs {}", what, a, b);
                ctx.nontrivial += 1;
                ctx.outcome(if ov.is_some() { "override-in-force" } else { "stored-in-force" });
                Ok(())
            }
        }
    }
}

struct ConeRows;
impl ConeRows {
    fn rows(c: &SupportedConeT<f64>) -> usize {
        match c {
            ZeroConeT(k) | NonnegativeConeT(k) | SecondOrderConeT(k) => *k,
            ExponentialConeT() | PowerConeT(_) => 3,
            GenPowerConeT(a, d) => a.len() + d,
            PSDTriangleConeT(k) => k * (k + 1) / 2,
        }
    }
}

pub const ASSUMPTIONS: &[&str] = &[
    "the saved file is parsed by the harness (serde_json) and compared with the user's originals: exactly with equilibration off, to 4 ulp otherwise (one scale/unscale round trip); b is expected capped at the infinity bound",
    "settings equality is field by field through the derived Debug representation",
    "a faulted file that is still a well-formed problem (e.g. a changed digit) is acceptable when the loaded solver is internally consistent and solves without panicking",
    "fault sweeps run in-process under catch_unwind; construction uses bounds-checked indexing, so corrupt indices surface as panics (violations), not undefined behaviour",
];

pub fn spaces(tier: &str, _seed: u64) -> Vec<Box<dyn Space>> {
    let thorough = tier == "thorough";
    let mut v: Vec<Box<dyn Space>> = vec![Box::new(RoundTrip { pairs: false, toggle_after_build: false }), Box::new(RoundTrip { pairs: false, toggle_after_build: true }), Box::new(ConeParams)];
    if thorough {
        v.push(Box::new(RoundTrip { pairs: true, toggle_after_build: false }));
    }
    for w in 0..(if thorough { 4 } else { 2 }) {
        v.push(Box::new(Faults::new(w)));
    }
    for w in 0..3 {
        v.push(Box::new(IndexFaults::new(w)));
    }
    v.push(Box::new(StoredSettings));
    v
}
