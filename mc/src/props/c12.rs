//! C12 — the sparse LDL' engine (public clarabel::qdldl API).
//! Exhaustive: all symmetric patterns (full diagonal) x permutations x sign vectors x value
//! variants; every vector in {0..n}^n as `perm`; all small structurally (in)valid encodings;
//! all histories of update/scale/offset/refactor up to a depth.

use crate::dense::*;

use crate::util::*;
use clarabel::algebra::CscMatrix;
use clarabel::qdldl::*;
use serde_json::{json, Value};

const EPS: f64 = 1e-12;
const DELTA: f64 = 1e-7;

fn perms(n: usize) -> Vec<Vec<usize>> {
    fn rec(cur: &mut Vec<usize>, used: &mut Vec<bool>, n: usize, out: &mut Vec<Vec<usize>>) {
        if cur.len() == n {
            out.push(cur.clone());
            return;
        }
        for i in 0..n {
            if !used[i] {
                used[i] = true;
                cur.push(i);
                rec(cur, used, n, out);
                cur.pop();
                used[i] = false;
            }
        }
    }
    let mut out = vec![];
    rec(&mut vec![], &mut vec![false; n], n, &mut out);
    out
}

/// upper-triangle index pairs (i<j) in a fixed order
fn pairs(n: usize) -> Vec<(usize, usize)> {
    let mut v = vec![];
    for j in 0..n {
        for i in 0..j {
            v.push((i, j));
        }
    }
    v
}

/// judge a successful factorisation from the crate's own outputs with dense arithmetic
#[allow(clippy::too_many_arguments)]
fn judge_factor(
    a_sym: &Dense,        // full symmetric A (user order)
    f: &QDLDLFactorisation<f64>,
    signs_user: &[i8],    // D signs in user order (all +1 if none given)
    regularize: bool,
    ctx: &mut Ctx,
) -> CaseResult {
    let n = a_sym.n;
    let perm = &f.perm;
    // perm must be a permutation
    let mut seen = vec![false; n];
    for &p in perm {
        ensure!(p < n && !seen[p], "accepted-invalid-permutation", "perm {:?}", perm);
        seen[p] = true;
    }
    // PAPt
    let mut pap = Dense::zeros(n, n);
    for i in 0..n {
        for j in 0..n {
            pap.set(i, j, a_sym.at(perm[i], perm[j]));
        }
    }
    let signs: Vec<f64> = (0..n).map(|i| signs_user[perm[i]] as f64).collect();
    // dense L (unit lower) and D from the factor object
    ensure!(is_canonical(&f.L) || f.L.nnz() == 0 || true, "L-format", "");
    let mut l = Dense::eye(n);
    ensure!(f.L.m == n && f.L.n == n && f.L.colptr.len() == n + 1, "L-shape", "{:?}", f.L);
    for j in 0..n {
        for p in f.L.colptr[j]..f.L.colptr[j + 1] {
            let i = f.L.rowval[p];
            ensure!(i > j && i < n, "L-not-strictly-lower", "entry ({},{})", i, j);
            l.set(i, j, f.L.nzval[p]);
        }
    }
    let d = &f.D;
    ensure!(d.len() == n && f.Dinv.len() == n, "D-length", "");
    for k in 0..n {
        ensure!(d[k].is_finite() && d[k] != 0.0, "D-zero-or-nonfinite", "D={:?}", d);
        let r = 1.0 / d[k];
        ensure!((f.Dinv[k] - r).abs() <= 4.0 * f64::EPSILON * r.abs(), "Dinv-not-reciprocal", "k={} D={} Dinv={}", k, d[k], f.Dinv[k]);
    }
    // reconstruction R = L D L', G = |L||D||L'|
    let mut regs = 0usize;
    let mut regs_ambiguous = 0usize;
    for i in 0..n {
        for j in 0..=i {
            let mut r = 0.0;
            let mut g = 0.0;
            let mut r_excl = 0.0; // without the k=j term's D (for the diagonal "would-be" pivot)
            for k in 0..=j {
                let t = l.at(i, k) * d[k] * l.at(j, k);
                r += t;
                g += t.abs();
                if k < j {
                    r_excl += t;
                }
            }
            let tol = 64.0 * (n as f64) * f64::EPSILON * (g + pap.at(i, j).abs()) + 1e-300;
            if i == j {
                let is_reg = regularize && d[j] == DELTA * signs[j];
                if is_reg {
                    // D_k equals +-delta: either the pivot was replaced (then the would-be pivot must
                    // really have been below the threshold) or it is a genuine pivot that happens to
                    // equal delta (then the reconstruction identity holds as for any other pivot)
                    let would_be = pap.at(j, j) - r_excl;
                    let legit_reg = would_be * signs[j] < EPS + tol;
                    let genuine = (r - pap.at(i, j)).abs() <= tol;
                    ensure!(
                        legit_reg || genuine,
                        "regularised-pivot-above-threshold",
                        "k={} would-be pivot {} sign {} (perm {:?})",
                        j,
                        would_be,
                        signs[j],
                        perm
                    );
                    if legit_reg && !genuine {
                        regs += 1;
                    } else if legit_reg {
                        regs_ambiguous += 1;
                    }
                    continue;
                } else if regularize {
                    ensure!(
                        d[j] * signs[j] >= EPS,
                        "unregularised-pivot-below-threshold",
                        "k={} D={} sign={}",
                        j,
                        d[j],
                        signs[j]
                    );
                }
            }
            ensure!(
                (r - pap.at(i, j)).abs() <= tol,
                "LDLt-reconstruction",
                "({},{}) LDLt={} PAPt={} tol={} perm={:?}",
                i,
                j,
                r,
                pap.at(i, j),
                tol,
                perm
            );
        }
    }
    ensure!(
        f.regularize_count() >= regs && f.regularize_count() <= regs + regs_ambiguous,
        "regularize_count",
        "reported {} but {}..{} pivots were replaced by +-delta (D={:?})",
        f.regularize_count(),
        regs,
        regs + regs_ambiguous,
        d
    );
    let pos = d.iter().filter(|x| **x > 0.0).count();
    ensure!(f.positive_inertia() == pos, "positive_inertia", "reported {} but D={:?}", f.positive_inertia(), d);
    ctx.transitions += 1;
    if regs > 0 {
        ctx.outcome("factored-with-regularisation");
    } else {
        ctx.outcome("factored-clean");
    }
    Ok(())
}

/// judge solve(): residual against M = P'(L D L')P built from the factors
fn judge_solve(f: &mut QDLDLFactorisation<f64>, ctx: &mut Ctx) -> CaseResult {
    let n = f.D.len();
    let mut l = Dense::eye(n);
    for j in 0..n {
        for p in f.L.colptr[j]..f.L.colptr[j + 1] {
            l.set(f.L.rowval[p], j, f.L.nzval[p]);
        }
    }
    let perm = f.perm.clone();
    // M_user[perm[i],perm[j]] = (LDL')_ij
    let mut m = Dense::zeros(n, n);
    let mut g = Dense::zeros(n, n);
    for i in 0..n {
        for j in 0..n {
            let mut r = 0.0;
            let mut gg = 0.0;
            for k in 0..n {
                let t = l.at(i, k) * f.D[k] * l.at(j, k);
                r += t;
                gg += t.abs();
            }
            m.set(perm[i], perm[j], r);
            g.set(perm[i], perm[j], gg);
        }
    }
    for which in 0..2 {
        let b: Vec<f64> = (0..n).map(|i| if which == 0 { 1.0 + i as f64 } else { if i % 2 == 0 { 1.0 } else { -2.0 } }).collect();
        let mut x = b.clone();
        f.solve(&mut x);
        if !x.iter().all(|v| v.is_finite()) {
            // the property is quantified over value assignments with bounded growth: a pivot that was replaced by
            // +-delta produces multipliers of 1/delta, and a chain of them overflows for n >= 6 (the factors are
            // still judged by judge_factor; only the overflowing solve carries no expectation)
            let lmax = f.L.nzval.iter().fold(0.0f64, |m, v| m.max(v.abs()));
            ensure!(lmax > 1e5, "solve-nonfinite", "{:?} (max |L| = {:e})", x, lmax);
            ctx.outcome("unbounded-growth-after-regularised-pivot(solve not judged)");
            return Ok(());
        }
        let mx = m.mulvec(&x);
        let xa: Vec<f64> = x.iter().map(|v| v.abs()).collect();
        let gx = g.mulvec(&xa);
        for i in 0..n {
            let tol = 256.0 * (n as f64) * f64::EPSILON * (gx[i] + b[i].abs());
            ensure!(
                (mx[i] - b[i]).abs() <= tol,
                "solve-residual",
                "row {} residual {} tol {} x={:?}",
                i,
                mx[i] - b[i],
                tol,
                x
            );
        }
        ctx.transitions += 1;
    }
    Ok(())
}

// ----------------------------------------------------------------------
// space A: patterns x perms x signs x variants
// ----------------------------------------------------------------------
pub struct Factor {
    pub n: usize,
    pub orders: Vec<Option<Vec<usize>>>, // None = AMD
    pub label: &'static str,
}
const NVARIANTS: u64 = 6;

impl Factor {
    pub fn all_orders(n: usize) -> Self {
        let mut orders: Vec<Option<Vec<usize>>> = perms(n).into_iter().map(Some).collect();
        orders.push(None);
        Self { n, orders, label: "allperms" }
    }
    pub fn few_orders(n: usize) -> Self {
        let id: Vec<usize> = (0..n).collect();
        let rev: Vec<usize> = (0..n).rev().collect();
        let rot: Vec<usize> = (0..n).map(|i| (i + 2) % n).collect();
        Self {
            n,
            orders: vec![Some(id), Some(rev), Some(rot), None],
            label: "id-rev-rot-amd",
        }
    }
    fn decode(&self, id: u64) -> (u64, u64, usize, u64) {
        let np = self.n * (self.n - 1) / 2;
        let mut d = Digits(id);
        let variant = d.take(NVARIANTS);
        let signs = d.take(1 << self.n);
        let ord = d.take(self.orders.len() as u64) as usize;
        let pat = d.take(1 << np);
        (pat, signs, ord, variant)
    }
    /// which diagonal entries are stored (variant 5 omits the diagonal of every odd column that
    /// has an entry above the diagonal: a legal input with a structurally zero diagonal entry)
    fn diag_stored(&self, pat: u64, variant: u64) -> Vec<bool> {
        let n = self.n;
        let mut v = vec![true; n];
        if variant == 5 {
            for (k, (_i, j)) in pairs(n).into_iter().enumerate() {
                if pat >> k & 1 == 1 && j % 2 == 1 {
                    v[j] = false;
                }
            }
        }
        v
    }
    fn build(&self, pat: u64, signs: u64, variant: u64) -> (Dense, Vec<i8>) {
        let n = self.n;
        let sv: Vec<i8> = (0..n).map(|i| if signs >> i & 1 == 1 { -1 } else { 1 }).collect();
        let mut a = Dense::zeros(n, n);
        for (k, (i, j)) in pairs(n).into_iter().enumerate() {
            if pat >> k & 1 == 1 {
                let v = match variant {
                    3 | 4 => 1.0,
                    _ => {
                        if (i * 3 + j) % 2 == 0 {
                            1.0
                        } else {
                            -1.0
                        }
                    }
                };
                a.set(i, j, v);
                a.set(j, i, v);
            }
        }
        let stored = self.diag_stored(pat, variant);
        for i in 0..n {
            let v = match variant {
                3 | 4 => sv[i] as f64, // +-1 diagonal, unit off-diagonals: exact zero pivots arise
                _ => sv[i] as f64 * (n + 1 + i) as f64, // strictly diagonally dominant
            };
            a.set(i, i, if stored[i] { v } else { 0.0 });
        }
        (a, sv)
    }
}

/// exact rational LDL' in the given order; returns index of first exact zero pivot (None if none)
/// and whether all intermediate values up to there are dyadic (=> float arithmetic is exact)
fn exact_zero_pivot(pap: &Dense) -> (Option<usize>, bool) {
    // fractions as (i128 num, i128 den>0)
    fn gcd(a: i128, b: i128) -> i128 {
        let (mut a, mut b) = (a.abs(), b.abs());
        while b != 0 {
            let t = a % b;
            a = b;
            b = t;
        }
        if a == 0 {
            1
        } else {
            a
        }
    }
    #[derive(Clone, Copy)]
    struct Q(i128, i128);
    impl Q {
        fn norm(self) -> Q {
            let g = gcd(self.0, self.1);
            let s = if self.1 < 0 { -1 } else { 1 };
            Q(s * self.0 / g, s * self.1 / g)
        }
        fn sub(self, o: Q) -> Q {
            Q(self.0 * o.1 - o.0 * self.1, self.1 * o.1).norm()
        }
        fn mul(self, o: Q) -> Q {
            Q(self.0 * o.0, self.1 * o.1).norm()
        }
        fn div(self, o: Q) -> Q {
            Q(self.0 * o.1, self.1 * o.0).norm()
        }
        fn dyadic(self) -> bool {
            let d = self.1;
            d > 0 && (d & (d - 1)) == 0 && d <= (1 << 20) && self.0.abs() < (1 << 30)
        }
    }
    let n = pap.n;
    let mut l = vec![vec![Q(0, 1); n]; n];
    let mut d = vec![Q(0, 1); n];
    let mut dyadic = true;
    for k in 0..n {
        let mut p = Q(pap.at(k, k) as i128, 1);
        for j in 0..k {
            p = p.sub(l[k][j].mul(l[k][j]).mul(d[j]));
        }
        dyadic &= p.dyadic();
        if p.0 == 0 {
            return (Some(k), dyadic);
        }
        d[k] = p;
        for i in k + 1..n {
            let mut v = Q(pap.at(i, k) as i128, 1);
            for j in 0..k {
                v = v.sub(l[i][j].mul(l[k][j]).mul(d[j]));
            }
            l[i][k] = v.div(p);
            dyadic &= l[i][k].dyadic();
        }
    }
    (None, dyadic)
}

impl Space for Factor {
    fn name(&self) -> String {
        format!("factor-n{}-{}", self.n, self.label)
    }
    fn size(&self) -> u64 {
        let np = self.n * (self.n - 1) / 2;
        NVARIANTS * (1u64 << self.n) * self.orders.len() as u64 * (1u64 << np)
    }
    fn describe(&self, id: u64) -> Value {
        let (pat, signs, ord, variant) = self.decode(id);
        let (a, sv) = self.build(pat, signs, variant);
        json!({"A": a.rows(), "signs": sv, "perm": self.orders[ord], "variant": variant,
               "variant_meaning": "0: dominant, Dsigns=true signs; 1: dominant, Dsigns=None; 2: dominant, regularisation off; 3: +-1 diag/unit offdiag, regularisation off (zero pivots -> Err); 4: same, regularisation on; 5: as 2 but odd columns with an above-diagonal entry have no stored diagonal"})
    }
    fn bound(&self) -> Value {
        json!({"n": self.n, "orders": self.orders.len(), "patterns": "all symmetric patterns with full diagonal", "sign_vectors": 1u64<<self.n, "variants": NVARIANTS})
    }
    fn run(&self, id: u64, ctx: &mut Ctx) -> CaseResult {
        let (pat, signs, ord, variant) = self.decode(id);
        let n = self.n;
        let (a, sv) = self.build(pat, signs, variant);
        let stored = self.diag_stored(pat, variant);
        let triu = a.triu().to_csc_masked(&|i, j| i <= j && ((i == j && stored[i]) || a.at(i, j) != 0.0));
        let regularize = matches!(variant, 0 | 1 | 4);
        let dsigns: Option<Vec<i8>> = match variant {
            0 | 4 => Some(sv.clone()),
            _ => None,
        };
        let signs_user: Vec<i8> = dsigns.clone().unwrap_or_else(|| vec![1; n]);
        let opts = QDLDLSettings::<f64> {
            perm: self.orders[ord].clone(),
            Dsigns: dsigns,
            regularize_enable: regularize,
            ..Default::default()
        };
        let res = QDLDLFactorisation::<f64>::new(&triu, Some(opts));
        match res {
            Err(QDLDLError::ZeroPivot) => {
                // legitimate only if an exact zero pivot exists in the order used and no regularisation
                ensure!(!regularize, "zero-pivot-error-with-regularisation", "variant {}", variant);
                let Some(perm) = self.orders[ord].clone() else {
                    // AMD order unknown on error; accept only for variant 3
                    ensure!(variant == 3 || variant == 5, "zero-pivot-error-on-dominant-matrix", "");
                    ctx.outcome("err-zero-pivot");
                    return Ok(());
                };
                let mut pap = Dense::zeros(n, n);
                for i in 0..n {
                    for j in 0..n {
                        pap.set(i, j, a.at(perm[i], perm[j]));
                    }
                }
                let (z, dy) = exact_zero_pivot(&pap);
                ensure!(
                    z.is_some() || !dy,
                    "spurious-zero-pivot-error",
                    "exact arithmetic has no zero pivot: A={:?} perm={:?}",
                    a.rows(),
                    perm
                );
                ctx.outcome("err-zero-pivot");
                ctx.nontrivial += 1;
                Ok(())
            }
            Err(e) => Err(Violation::new("unexpected-error-on-valid-input", format!("{:?} for {:?}", e, a.rows()))),
            Ok(mut f) => {
                if !regularize {
                    // an exact zero pivot (exactly computable) must have been reported
                    let mut pap = Dense::zeros(n, n);
                    for i in 0..n {
                        for j in 0..n {
                            pap.set(i, j, a.at(f.perm[i], f.perm[j]));
                        }
                    }
                    let (z, dy) = exact_zero_pivot(&pap);
                    ensure!(
                        !(z.is_some() && dy),
                        "zero-pivot-not-reported",
                        "exact zero pivot at {:?} but Ok returned: A={:?} perm={:?} D={:?}",
                        z,
                        a.rows(),
                        f.perm,
                        f.D
                    );
                }
                if let Some(p) = &self.orders[ord] {
                    ensure!(&f.perm == p, "perm-not-honoured", "{:?} vs {:?}", f.perm, p);
                }
                judge_factor(&a, &f, &signs_user, regularize, ctx)?;
                judge_solve(&mut f, ctx)?;
                if pat != 0 {
                    ctx.nontrivial += 1;
                }
                Ok(())
            }
        }
    }
}

// ----------------------------------------------------------------------
// space A2: pivots on both sides of the regularisation thresholds, at every elimination position
// ----------------------------------------------------------------------
/// every assignment of magnitudes {dominant, 1e-9 (between eps and delta), 1e-13 (below eps), 3e-7 (just above
/// delta)} to the diagonal, every agreement pattern between the sign of the entry and the declared D sign,
/// every elimination order and every sparsity pattern with weak (1e-5) couplings: "pivots are perturbed only
/// when their signed value falls below the regularisation threshold" must hold at each position, first included
pub struct Thresholds {
    pub n: usize,
    pub orders: Vec<Option<Vec<usize>>>,
}
const MAGS_T: [f64; 4] = [0.0, 1e-9, 1e-13, 3e-7]; // 0.0 stands for the dominant value n+1+i
impl Thresholds {
    fn decode(&self, id: u64) -> (Dense, Vec<i8>, usize) {
        let n = self.n;
        let np = n * (n - 1) / 2;
        let mut d = Digits(id);
        let ord = d.take(self.orders.len() as u64) as usize;
        let pat = d.take(1 << np);
        let mut a = Dense::zeros(n, n);
        let mut ds = vec![1i8; n];
        for i in 0..n {
            let mag = *d.pick(&MAGS_T);
            let agree = d.take(2) == 0;
            let dsign: i8 = if d.take(2) == 0 { 1 } else { -1 };
            ds[i] = dsign;
            let m = if mag == 0.0 { (n + 1 + i) as f64 } else { mag };
            a.set(i, i, m * dsign as f64 * if agree { 1.0 } else { -1.0 });
        }
        for (k, (i, j)) in pairs(n).into_iter().enumerate() {
            if pat >> k & 1 == 1 {
                a.set(i, j, 1e-5);
                a.set(j, i, 1e-5);
            }
        }
        (a, ds, ord)
    }
}
impl Space for Thresholds {
    fn name(&self) -> String {
        format!("thresholds-n{}-{}orders", self.n, self.orders.len())
    }
    fn size(&self) -> u64 {
        let np = self.n * (self.n - 1) / 2;
        self.orders.len() as u64 * (1u64 << np) * 16u64.pow(self.n as u32)
    }
    fn describe(&self, id: u64) -> Value {
        let (a, ds, ord) = self.decode(id);
        json!({"A": a.rows(), "Dsigns": ds, "perm": self.orders[ord], "regularize_eps": EPS, "regularize_delta": DELTA})
    }
    fn bound(&self) -> Value {
        json!({"n": self.n, "orders": self.orders.len(), "diagonal_magnitudes": ["n+1+i", 1e-9, 1e-13, 3e-7], "entry_sign_vs_Dsign": "agree | disagree", "Dsigns": "all", "patterns": "all, couplings 1e-5"})
    }
    fn run(&self, id: u64, ctx: &mut Ctx) -> CaseResult {
        let (a, ds, ord) = self.decode(id);
        let triu = a.triu().to_csc_masked(&|i, j| i == j || (i < j && a.at(i, j) != 0.0));
        let opts = QDLDLSettings::<f64> { perm: self.orders[ord].clone(), Dsigns: Some(ds.clone()), regularize_enable: true, ..Default::default() };
        match QDLDLFactorisation::<f64>::new(&triu, Some(opts)) {
            Err(e) => Err(Violation::new("unexpected-error-on-valid-input", format!("{:?} for {:?}", e, a.rows()))),
            Ok(mut f) => {
                if let Some(p) = &self.orders[ord] {
                    ensure!(&f.perm == p, "perm-not-honoured", "{:?} vs {:?}", f.perm, p);
                }
                ctx.outcome(&format!("regularised={}", f.regularize_count()));
                judge_factor(&a, &f, &ds, true, ctx)?;
                judge_solve(&mut f, ctx)?;
                ctx.nontrivial += 1;
                Ok(())
            }
        }
    }
}

// ----------------------------------------------------------------------
// zero pivots under every regularisation configuration: "zero pivots ... are reported as errors, never as a
// silently wrong solution" must also hold when regularisation is switched on but cannot repair the pivot
// (threshold 0 or negative, replacement value 0), on the first pivot and on later (Schur) pivots, from
// scratch and through update_values + refactor
// ----------------------------------------------------------------------
pub struct ZeroPivots {
    pub n: usize,
}
const ZP_DIAG: [f64; 5] = [0.0, 1.0, -1.0, 2.0, -2.0];
const ZP_EPS: [f64; 3] = [1e-12, 0.0, -1.0];
const ZP_DELTA: [f64; 2] = [1e-7, 0.0];
impl ZeroPivots {
    #[allow(clippy::type_complexity)]
    fn decode(&self, id: u64) -> (Dense, Vec<i8>, bool, f64, f64, bool) {
        let n = self.n;
        let mut d = Digits(id);
        let enable = d.take(2) == 0;
        let eps = *d.pick(&ZP_EPS);
        let delta = *d.pick(&ZP_DELTA);
        let reversed = d.take(2) == 1;
        let mut a = Dense::zeros(n, n);
        let mut ds = vec![1i8; n];
        for i in 0..n {
            a.set(i, i, *d.pick(&ZP_DIAG));
            ds[i] = if d.take(2) == 0 { 1 } else { -1 };
        }
        for (i, j) in pairs(n) {
            if d.take(2) == 1 {
                a.set(i, j, 1.0);
                a.set(j, i, 1.0);
            }
        }
        (a, ds, enable, eps, delta, reversed)
    }
    /// dense reference elimination in the given order with the documented rule; None = a zero pivot remains.
    /// second value: every intermediate quantity was a small dyadic rational (so every operation was exact)
    fn reference(pap: &Dense, signs: &[f64], enable: bool, eps: f64, delta: f64) -> (Option<Vec<f64>>, bool) {
        let n = pap.n;
        let mut l = Dense::eye(n);
        let mut dd = vec![0.0; n];
        let mut exact = true;
        let dyadic = |v: f64| v.abs() < 1048576.0 && (v * 1048576.0).fract() == 0.0;
        for k in 0..n {
            let mut dk = pap.at(k, k);
            for j in 0..k {
                dk -= l.at(k, j) * l.at(k, j) * dd[j];
            }
            exact &= dyadic(dk);
            if enable && dk * signs[k] < eps {
                dk = delta * signs[k];
            }
            if dk == 0.0 {
                return (None, exact);
            }
            dd[k] = dk;
            for i in k + 1..n {
                let mut v = pap.at(i, k);
                for j in 0..k {
                    v -= l.at(i, j) * l.at(k, j) * dd[j];
                }
                let lik = v / dk;
                exact &= dyadic(v) && (delta == dk.abs() || dyadic(lik));
                l.set(i, k, lik);
            }
        }
        (Some(dd), exact)
    }
}
impl Space for ZeroPivots {
    fn name(&self) -> String {
        format!("zero-pivots-n{}", self.n)
    }
    fn size(&self) -> u64 {
        let np = (self.n * (self.n - 1) / 2) as u32;
        2 * 3 * 2 * 2 * 10u64.pow(self.n as u32) * 2u64.pow(np)
    }
    fn describe(&self, id: u64) -> Value {
        let (a, ds, enable, eps, delta, reversed) = self.decode(id);
        json!({"A": a.rows(), "Dsigns": ds, "regularize_enable": enable, "regularize_eps": eps, "regularize_delta": delta, "order": if reversed { "reversed" } else { "natural" }})
    }
    fn bound(&self) -> Value {
        json!({"n": self.n, "diagonal": ZP_DIAG, "couplings": [0, 1], "Dsigns": "all", "regularize_enable": [true, false], "regularize_eps": ZP_EPS, "regularize_delta": ZP_DELTA, "orders": ["natural", "reversed"], "paths": ["factor from scratch", "update_values + refactor from a benign matrix of the same pattern"]})
    }
    fn run(&self, id: u64, ctx: &mut Ctx) -> CaseResult {
        let (a, ds, enable, eps, delta, reversed) = self.decode(id);
        let n = self.n;
        let perm: Vec<usize> = if reversed { (0..n).rev().collect() } else { (0..n).collect() };
        let keep = |i: usize, j: usize| i == j || (i < j && a.at(i, j) != 0.0);
        let triu = a.triu().to_csc_masked(&keep);
        let opts = QDLDLSettings::<f64> { perm: Some(perm.clone()), Dsigns: Some(ds.clone()), regularize_enable: enable, regularize_eps: eps, regularize_delta: delta, ..Default::default() };
        let mut pap = Dense::zeros(n, n);
        for i in 0..n {
            for j in 0..n {
                pap.set(i, j, a.at(perm[i], perm[j]));
            }
        }
        let signs: Vec<f64> = (0..n).map(|i| ds[perm[i]] as f64).collect();
        let (want, exact) = Self::reference(&pap, &signs, enable, eps, delta);
        let what = || format!("A={:?} Dsigns={:?} enable={} eps={:e} delta={:e} perm={:?}", a.rows(), ds, enable, eps, delta, perm);
        let judge = |r: Result<&QDLDLFactorisation<f64>, &QDLDLError>, path: &str| -> CaseResult {
            match r {
                Err(QDLDLError::ZeroPivot) => {
                    ensure!(!exact || want.is_none(), "zero-pivot-reported-without-one", "{}: {} (reference pivots {:?})", path, what(), want);
                    Ok(())
                }
                Err(e) => Err(Violation::new("unexpected-error-kind", format!("{}: {:?} for {}", path, e, what()))),
                Ok(f) => {
                    for k in 0..n {
                        ensure!(f.D[k].is_finite() && f.D[k] != 0.0 && f.Dinv[k].is_finite(), "zero-pivot-accepted-silently", "{}: D={:?} Dinv={:?} for {}", path, f.D, f.Dinv, what());
                    }
                    if exact {
                        match &want {
                            None => return Err(Violation::new("zero-pivot-accepted-silently", format!("{}: reference elimination meets a zero pivot, D={:?} for {}", path, f.D, what()))),
                            Some(dd) => ensure!(dd.iter().zip(&f.D).all(|(x, y)| x.to_bits() == y.to_bits()), "pivots-differ-from-exact-reference", "{}: D={:?} reference {:?} for {}", path, f.D, dd, what()),
                        }
                    }
                    Ok(())
                }
            }
        };
        let direct = QDLDLFactorisation::<f64>::new(&triu, Some(opts.clone()));
        judge(direct.as_ref(), "factor")?;
        ctx.transitions += 1;
        // the same matrix reached through update_values + refactor from a benign matrix of the same pattern
        let mut benign = triu.clone();
        for j in 0..n {
            for p in benign.colptr[j]..benign.colptr[j + 1] {
                if benign.rowval[p] == j {
                    benign.nzval[p] = (4 * n + j) as f64 * ds[j] as f64;
                }
            }
        }
        if let Ok(mut f) = QDLDLFactorisation::<f64>::new(&benign, Some(opts)) {
            let idx: Vec<usize> = (0..triu.nzval.len()).collect();
            f.update_values(&idx, &triu.nzval);
            let r = f.refactor();
            ctx.transitions += 2;
            match (&r, &direct) {
                (Err(e), _) => judge(Err(e), "update_values+refactor")?,
                (Ok(()), _) => judge(Ok(&f), "update_values+refactor")?,
            }
            ensure!(r.is_ok() == direct.is_ok(), "refactor-and-factor-disagree-on-zero-pivot", "refactor ok={} factor ok={} for {}", r.is_ok(), direct.is_ok(), what());
            if let (Ok(()), Ok(g)) = (&r, &direct) {
                ensure!(f.D.iter().zip(&g.D).all(|(x, y)| x.to_bits() == y.to_bits()), "refactor-not-bit-identical", "{:?} vs {:?} for {}", f.D, g.D, what());
            }
        }
        ctx.outcome(match (&direct, &want) {
            (Err(_), _) => "zero-pivot-error",
            (Ok(f), _) if f.regularize_count() > 0 => "factored-regularised",
            _ => "factored",
        });
        ctx.nontrivial += 1;
        Ok(())
    }
}

// ----------------------------------------------------------------------
// space B: every vector in {0..n}^n as the permutation
// ----------------------------------------------------------------------
pub struct PermVectors {
    pub n: usize,
}
impl PermVectors {
    fn decode(&self, id: u64) -> Vec<usize> {
        let mut d = Digits(id);
        (0..self.n).map(|_| d.take(self.n as u64 + 1) as usize).collect()
    }
    fn matrix(&self) -> Dense {
        let n = self.n;
        let mut a = Dense::zeros(n, n);
        for i in 0..n {
            a.set(i, i, if i % 2 == 0 { (n + 2 + i) as f64 } else { -((n + 2 + i) as f64) });
            if i + 1 < n {
                a.set(i, i + 1, 1.0);
                a.set(i + 1, i, 1.0);
            }
        }
        if n > 2 {
            a.set(0, n - 1, -1.0);
            a.set(n - 1, 0, -1.0);
        }
        a
    }
}
impl Space for PermVectors {
    fn name(&self) -> String {
        format!("perm-vectors-n{}", self.n)
    }
    fn size(&self) -> u64 {
        ((self.n + 1) as u64).pow(self.n as u32)
    }
    fn describe(&self, id: u64) -> Value {
        json!({"perm": self.decode(id), "A": self.matrix().rows()})
    }
    fn bound(&self) -> Value {
        json!({"n": self.n, "entries": format!("0..={}", self.n)})
    }
    fn run(&self, id: u64, ctx: &mut Ctx) -> CaseResult {
        let p = self.decode(id);
        let n = self.n;
        let a = self.matrix();
        let triu = a.triu().to_csc();
        let mut seen = vec![false; n];
        let valid = p.iter().all(|&x| {
            if x < n && !seen[x] {
                seen[x] = true;
                true
            } else {
                false
            }
        });
        let signs: Vec<i8> = (0..n).map(|i| if i % 2 == 0 { 1 } else { -1 }).collect();
        let opts = QDLDLSettings::<f64> {
            perm: Some(p.clone()),
            Dsigns: Some(signs.clone()),
            ..Default::default()
        };
        let res = QDLDLFactorisation::<f64>::new(&triu, Some(opts));
        ctx.transitions += 1;
        if valid {
            ctx.nontrivial += 1;
            let Ok(mut f) = res else {
                return Err(Violation::new("valid-permutation-rejected", format!("{:?}", p)));
            };
            judge_factor(&a, &f, &signs, true, ctx)?;
            judge_solve(&mut f, ctx)?;
            ctx.outcome("valid-perm-ok");
        } else {
            match res {
                Err(QDLDLError::InvalidPermutation) => ctx.outcome("invalid-perm-rejected"),
                Err(e) => return Err(Violation::new("invalid-permutation-wrong-error", format!("{:?}: {:?}", p, e))),
                Ok(_) => {
                    let out_of_range = p.iter().any(|&x| x >= n);
                    let first_dup_at0 = {
                        // classify for known-finding matching: the repeated value first occurs at index 0
                        let mut firstpos = vec![usize::MAX; n + 1];
                        let mut r = false;
                        for (i, &x) in p.iter().enumerate() {
                            if firstpos[x] == usize::MAX {
                                firstpos[x] = i;
                            } else if firstpos[x] == 0 {
                                r = true;
                            }
                        }
                        r
                    };
                    let key = if out_of_range {
                        "invalid-permutation-accepted:out-of-range"
                    } else if first_dup_at0 {
                        "invalid-permutation-accepted:repeat-of-entry-at-index-0"
                    } else {
                        "invalid-permutation-accepted:other-repeat"
                    };
                    return Err(Violation::new(key, format!("perm {:?} accepted (silently wrong solves)", p)));
                }
            }
        }
        Ok(())
    }
}

// ----------------------------------------------------------------------
// space C: all small encodings (structure validation)
// ----------------------------------------------------------------------
pub struct Structure {
    pub maxdim: usize,
}
impl Structure {
    fn shapes(&self) -> Vec<(usize, usize)> {
        let mut v = vec![];
        for m in 1..=self.maxdim {
            for n in 1..=self.maxdim {
                v.push((m, n));
            }
        }
        v
    }
    fn decode(&self, id: u64) -> (usize, usize, u64) {
        let half: u64 = self.shapes().iter().map(|(m, n)| 1u64 << (m * n)).sum();
        let mut id = id % half;
        for (m, n) in self.shapes() {
            let c = 1u64 << (m * n);
            if id < c {
                return (m, n, id);
            }
            id -= c;
        }
        unreachable!()
    }
    /// second half of the space: the same encodings with the entries of every column stored in descending row order
    fn reversed(&self, id: u64) -> bool {
        let half: u64 = self.shapes().iter().map(|(m, n)| 1u64 << (m * n)).sum();
        id >= half
    }
}
impl Space for Structure {
    fn name(&self) -> String {
        format!("structure-dims<={}", self.maxdim)
    }
    fn size(&self) -> u64 {
        2 * self.shapes().iter().map(|(m, n)| 1u64 << (m * n)).sum::<u64>()
    }
    fn describe(&self, id: u64) -> Value {
        let (m, n, pat) = self.decode(id);
        json!({"m":m,"n":n,"pattern_bits":pat,"values":"entry (i,j) = 1 offdiag, 4+i on the diagonal", "rows_within_columns": if self.reversed(id) { "descending (unsorted encoding)" } else { "ascending" }})
    }
    fn bound(&self) -> Value {
        json!({"shapes": format!("1..={0} x 1..={0}", self.maxdim), "patterns":"all"})
    }
    fn run(&self, id: u64, ctx: &mut Ctx) -> CaseResult {
        let (m, n, pat) = self.decode(id);
        let mut a = Dense::zeros(m, n);
        let has = |i: usize, j: usize| pat >> (i * n + j) & 1 == 1;
        for i in 0..m {
            for j in 0..n {
                if has(i, j) {
                    a.set(i, j, if i == j { 4.0 + i as f64 } else { 1.0 });
                }
            }
        }
        let mut csc = a.to_csc();
        let reversed = self.reversed(id);
        if reversed {
            for j in 0..n {
                let (lo, hi) = (csc.colptr[j], csc.colptr[j + 1]);
                csc.rowval[lo..hi].reverse();
                csc.nzval[lo..hi].reverse();
            }
        }
        let nonsquare = m != n;
        let below = (0..m).any(|i| (0..n).any(|j| i > j && has(i, j)));
        let emptycol = (0..n).any(|j| (0..m).all(|i| !has(i, j)));
        let id_perm: Vec<usize> = (0..n).collect();
        let opts = QDLDLSettings::<f64> {
            perm: Some(id_perm),
            regularize_enable: false,
            ..Default::default()
        };
        let res = QDLDLFactorisation::<f64>::new(&csc, Some(opts));
        ctx.transitions += 1;
        if nonsquare || below || emptycol {
            match res {
                Err(QDLDLError::IncompatibleDimension) | Err(QDLDLError::NotUpperTriangular) | Err(QDLDLError::EmptyColumn) => {
                    ctx.outcome("structure-error-reported");
                    Ok(())
                }
                Err(e) => Err(Violation::new("structure-wrong-error", format!("{:?} for {}x{} pat {:b}", e, m, n, pat))),
                Ok(_) => Err(Violation::new(
                    "invalid-structure-accepted",
                    format!("{}x{} pat {:b} nonsquare={} below={} emptycol={}", m, n, pat, nonsquare, below, emptycol),
                )),
            }
        } else {
            ctx.nontrivial += 1;
            let sym = a.sym_from_triu();
            match res {
                Ok(mut f) => {
                    let (z, dy) = exact_zero_pivot(&sym);
                    ensure!(!(z.is_some() && dy), "zero-pivot-not-reported", "{:?}", sym.rows());
                    judge_factor(&sym, &f, &vec![1; n], false, ctx)?;
                    judge_solve(&mut f, ctx)?;
                    Ok(())
                }
                Err(QDLDLError::ZeroPivot) => {
                    let (z, dy) = exact_zero_pivot(&sym);
                    ensure!(z.is_some() || !dy, "spurious-zero-pivot-error", "{:?}", sym.rows());
                    ctx.outcome("err-zero-pivot");
                    Ok(())
                }
                Err(_) if reversed => {
                    // an unsorted encoding may be refused; it must only never be factored wrongly
                    ctx.outcome("unsorted-encoding-refused");
                    Ok(())
                }
                Err(e) => Err(Violation::new("unexpected-error-on-valid-input", format!("{:?} for {:?}", e, sym.rows()))),
            }
        }
    }
}

// ----------------------------------------------------------------------
// space D: histories of update / scale / offset / refactor
// ----------------------------------------------------------------------
#[derive(Clone, Copy, Debug)]
enum Op {
    Update(usize, usize), // index set, value set
    Scale(usize, usize),  // index set, factor
    Offset(usize),        // offset id
    Refactor,
}
const SCALES: [f64; 2] = [2.0, -0.5];
const OFFSETS: [f64; 2] = [0.5, -0.25];

pub struct Histories {
    pub depth: usize,
    pub base: usize,
}
struct Base {
    a: Dense,          // symmetric
    perm: Option<Vec<usize>>,
    signs: Vec<i8>,
    diag_stored: Vec<bool>,
    logical_first: bool,
}
impl Histories {
    fn alphabet() -> Vec<Op> {
        let mut v = vec![];
        for i in 0..2 {
            for j in 0..2 {
                v.push(Op::Update(i, j));
            }
        }
        for i in 0..2 {
            for j in 0..2 {
                v.push(Op::Scale(i, j));
            }
        }
        v.push(Op::Offset(0));
        v.push(Op::Offset(1));
        v.push(Op::Refactor);
        v
    }
    fn base(&self) -> Base {
        let n = 4;
        let mut a = Dense::zeros(n, n);
        let entries: &[(usize, usize, f64)] = match self.base {
            0 | 3 | 4 => &[(0, 1, 1.0), (1, 2, -1.0), (2, 3, 1.0), (0, 3, 1.0)],
            1 => &[(0, 1, 1.0), (0, 2, 1.0), (0, 3, -1.0), (1, 2, 1.0), (1, 3, 1.0), (2, 3, -1.0)],
            _ => &[(0, 2, 1.0), (1, 3, -1.0)],
        };
        for &(i, j, v) in entries {
            a.set(i, j, v);
            a.set(j, i, v);
        }
        let signs: Vec<i8> = vec![1, 1, -1, -1];
        for i in 0..n {
            a.set(i, i, signs[i] as f64 * (6 + i) as f64);
        }
        let perm = match self.base {
            0 | 4 => Some(vec![2, 0, 3, 1]),
            1 => None,
            3 => Some(vec![0, 1, 2, 3]),
            _ => Some(vec![3, 2, 1, 0]),
        };
        // base 3: columns 1 and 3 have no stored diagonal entry (structural zero on the diagonal)
        let diag_stored = if self.base == 3 { vec![true, false, true, false] } else { vec![true; n] };
        for i in 0..n {
            if !diag_stored[i] {
                a.set(i, i, 0.0);
            }
        }
        Base { a, perm, signs, diag_stored, logical_first: self.base == 4 }
    }
    fn decode(&self, id: u64) -> Vec<Op> {
        let al = Self::alphabet();
        let mut d = Digits(id);
        (0..self.depth).map(|_| *d.pick(&al)).collect()
    }
}
impl Space for Histories {
    fn name(&self) -> String {
        format!("histories-depth{}-base{}", self.depth, self.base)
    }
    fn size(&self) -> u64 {
        (Self::alphabet().len() as u64).pow(self.depth as u32)
    }
    fn describe(&self, id: u64) -> Value {
        json!({"base": self.base, "ops": self.decode(id).iter().map(|o| format!("{:?}", o)).collect::<Vec<_>>(), "then": "refactor; compare bitwise with a fresh factorisation of the updated matrix"})
    }
    fn bound(&self) -> Value {
        json!({"depth": self.depth, "alphabet": Self::alphabet().len(), "base": self.base})
    }
    fn run(&self, id: u64, ctx: &mut Ctx) -> CaseResult {
        let ops = self.decode(id);
        let b = self.base();
        let n = b.a.n;
        let a0 = b.a.triu().to_csc_masked(&|i, j| i <= j && ((i == j && b.diag_stored[i]) || (i != j && b.a.at(i, j) != 0.0)));
        let nnz = a0.nnz();
        let mk2 = |a: &CscMatrix<f64>, perm: Option<Vec<usize>>, logical: bool| {
            QDLDLFactorisation::<f64>::new(
                a,
                Some(QDLDLSettings::<f64> {
                    perm,
                    Dsigns: Some(b.signs.clone()),
                    logical,
                    ..Default::default()
                }),
            )
        };
        let mk = |a: &CscMatrix<f64>, perm: Option<Vec<usize>>| mk2(a, perm, false);
        let Ok(mut f) = mk2(&a0, b.perm.clone(), b.logical_first) else {
            return Err(Violation::new("base-factorisation-failed", ""));
        };
        let perm_used = f.perm.clone();
        // index sets in the *input* nzval numbering
        let diag_idx: Vec<usize> = (0..n).filter(|j| b.diag_stored[*j]).map(|j| a0.colptr[j + 1] - 1).collect();
        let diag_signs: Vec<i8> = (0..n).filter(|j| b.diag_stored[*j]).map(|j| b.signs[j]).collect();
        let offdiag_idx: Vec<usize> = (0..nnz).filter(|k| !diag_idx.contains(k)).collect();
        let set_a: Vec<usize> = offdiag_idx.clone();
        let set_b: Vec<usize> = vec![diag_idx[1 % diag_idx.len()], offdiag_idx[0], diag_idx[diag_idx.len() - 1]];
        let sets = [set_a, set_b];
        let mut model = a0.nzval.clone();
        #[allow(unused_assignments)]
        let mut symbolic_only = b.logical_first;
        for op in &ops {
            match *op {
                Op::Update(s, v) => {
                    let idx = &sets[s];
                    let vals: Vec<f64> = idx
                        .iter()
                        .enumerate()
                        .map(|(k, &i)| {
                            let base = model[i];
                            if v == 0 {
                                base + 0.25 * (k as f64 + 1.0)
                            } else if diag_idx.contains(&i) {
                                base * 1.5
                            } else {
                                -base
                            }
                        })
                        .collect();
                    f.update_values(idx, &vals);
                    for (k, &i) in idx.iter().enumerate() {
                        model[i] = vals[k];
                    }
                }
                Op::Scale(s, c) => {
                    f.scale_values(&sets[s], SCALES[c]);
                    for &i in &sets[s] {
                        model[i] *= SCALES[c];
                    }
                }
                Op::Offset(o) => {
                    f.offset_values(&diag_idx, OFFSETS[o], &diag_signs);
                    for (k, &i) in diag_idx.iter().enumerate() {
                        if diag_signs[k] > 0 {
                            model[i] += OFFSETS[o];
                        } else {
                            model[i] -= OFFSETS[o];
                        }
                    }
                }
                Op::Refactor => {
                    let _ = f.refactor();
                    symbolic_only = false;
                }
            }
            ctx.transitions += 1;
        }
        let r1 = f.refactor();
        let mut a1 = a0.clone();
        a1.nzval = model.clone();
        let fresh = mk(&a1, Some(perm_used.clone()));
        match (r1, fresh) {
            (Ok(()), Ok(mut g)) => {
                let same = f.L.nzval.iter().zip(&g.L.nzval).all(|(x, y)| x.to_bits() == y.to_bits())
                    && f.L.rowval == g.L.rowval
                    && f.L.colptr == g.L.colptr
                    && f.D.iter().zip(&g.D).all(|(x, y)| x.to_bits() == y.to_bits())
                    && f.Dinv.iter().zip(&g.Dinv).all(|(x, y)| x.to_bits() == y.to_bits());
                ensure!(
                    same,
                    "refactor-differs-from-fresh",
                    "after {:?}: refactor D={:?} fresh D={:?} (updated nzval {:?})",
                    ops,
                    f.D,
                    g.D,
                    model
                );
                ensure!(
                    f.positive_inertia() == g.positive_inertia() && f.regularize_count() == g.regularize_count(),
                    "refactor-inertia-differs",
                    "{} {} vs {} {}",
                    f.positive_inertia(),
                    f.regularize_count(),
                    g.positive_inertia(),
                    g.regularize_count()
                );
                // and the refactored object is a correct factorisation of the updated matrix
                let mut full = Dense::zeros(n, n);
                for j in 0..n {
                    for p in a1.colptr[j]..a1.colptr[j + 1] {
                        full.set(a1.rowval[p], j, a1.nzval[p]);
                        full.set(j, a1.rowval[p], a1.nzval[p]);
                    }
                }
                judge_factor(&full, &f, &b.signs, true, ctx)?;
                // solves agree bitwise too
                let mut x1 = vec![1.0, -2.0, 3.0, 0.5];
                let mut x2 = x1.clone();
                f.solve(&mut x1);
                g.solve(&mut x2);
                ensure!(x1.iter().zip(&x2).all(|(x, y)| x.to_bits() == y.to_bits()), "refactor-solve-differs", "{:?} vs {:?}", x1, x2);
                ctx.outcome("refactor==fresh");
                ctx.nontrivial += 1;
            }
            (Err(_), Err(_)) => ctx.outcome("both-err"),
            (a, b2) => {
                return Err(Violation::new(
                    "refactor-vs-fresh-verdict-differs",
                    format!("refactor {:?} fresh {:?} after {:?}", a.is_ok(), b2.is_ok(), ops),
                ));
            }
        }
        Ok(())
    }
}

// ----------------------------------------------------------------------
// supplement (sampling): random patterns n <= 40
// ----------------------------------------------------------------------
pub struct RandomLarge {
    pub count: u64,
    pub seed: u64,
}
impl Space for RandomLarge {
    fn name(&self) -> String {
        "random-n<=40(sampling)".into()
    }
    fn size(&self) -> u64 {
        self.count
    }
    fn is_sampling_supplement(&self) -> bool {
        true
    }
    fn describe(&self, id: u64) -> Value {
        json!({"seed": self.seed, "index": id})
    }
    fn run(&self, id: u64, ctx: &mut Ctx) -> CaseResult {
        let mut rng = Rng(self.seed.wrapping_mul(7919).wrapping_add(id));
        let n = 2 + rng.below(39) as usize;
        let dens = 1 + rng.below(4);
        let mut a = Dense::zeros(n, n);
        let mut rowsum = vec![0.0; n];
        for j in 0..n {
            for i in 0..j {
                if rng.below(10) < dens {
                    let v = rng.below(5) as f64 - 2.0;
                    if v != 0.0 {
                        a.set(i, j, v);
                        a.set(j, i, v);
                        rowsum[i] += v.abs();
                        rowsum[j] += v.abs();
                    }
                }
            }
        }
        let signs: Vec<i8> = (0..n).map(|_| if rng.below(2) == 0 { 1 } else { -1 }).collect();
        for i in 0..n {
            a.set(i, i, signs[i] as f64 * (rowsum[i] + 1.0 + rng.below(3) as f64));
        }
        let triu = a.triu().to_csc_masked(&|i, j| i <= j && (i == j || a.at(i, j) != 0.0));
        let perm = if rng.below(2) == 0 {
            None
        } else {
            let mut p: Vec<usize> = (0..n).collect();
            for k in (1..n).rev() {
                let t = rng.below(k as u64 + 1) as usize;
                p.swap(k, t);
            }
            Some(p)
        };
        let opts = QDLDLSettings::<f64> {
            perm,
            Dsigns: Some(signs.clone()),
            ..Default::default()
        };
        let Ok(mut f) = QDLDLFactorisation::<f64>::new(&triu, Some(opts)) else {
            return Err(Violation::new("unexpected-error-on-valid-input", "random dominant matrix"));
        };
        judge_factor(&a, &f, &signs, true, ctx)?;
        judge_solve(&mut f, ctx)?;
        Ok(())
    }
}

pub const ASSUMPTIONS: &[&str] = &[
    "bounded growth by construction: strictly diagonally dominant values (variants 0-2) or +-1/unit data (variants 3-4); backward-error tolerance 64*n*eps*(|L||D||L'|)_ij",
    "a pivot counts as replaced iff D_k == delta*sign_k exactly and the reconstruction identity fails for it; where both readings are consistent regularize_count may take either value",
    "zero-pivot expectations are only enforced where exact rational arithmetic shows every intermediate value is dyadic, i.e. the float computation is exact in any evaluation order",
];

pub fn spaces(tier: &str, seed: u64) -> Vec<Box<dyn Space>> {
    let thorough = tier == "thorough";
    let mut v: Vec<Box<dyn Space>> = vec![];
    for n in 2..=5 {
        v.push(Box::new(Factor::all_orders(n)));
    }
    if thorough {
        v.push(Box::new(Factor::few_orders(6)));
    }
    for n in 1..=3 {
        let mut orders: Vec<Option<Vec<usize>>> = perms(n).into_iter().map(Some).collect();
        orders.push(None);
        v.push(Box::new(Thresholds { n, orders }));
    }
    if thorough {
        let id: Vec<usize> = (0..4).collect();
        let rev: Vec<usize> = (0..4).rev().collect();
        v.push(Box::new(Thresholds { n: 4, orders: vec![Some(id), Some(rev), Some(vec![2, 0, 3, 1]), None] }));
    }
    for n in 1..=(if thorough { 4 } else { 3 }) {
        v.push(Box::new(ZeroPivots { n }));
    }
    for n in 1..=(if thorough { 7 } else { 6 }) {
        v.push(Box::new(PermVectors { n }));
    }
    v.push(Box::new(Structure { maxdim: if thorough { 4 } else { 3 } }));
    for base in 0..5 {
        for depth in 0..=(if thorough { 6 } else { 4 }) {
            v.push(Box::new(Histories { depth, base }));
        }
    }
    v.push(Box::new(RandomLarge {
        count: if thorough { 200000 } else { 3000 },
        seed,
    }));
    v
}
