//! C16 — sparse-matrix operations agree with their dense meaning.
//! Exhaustive over all small matrices / triplet sequences / raw encodings / block tuples.
//! All values are small integers so every comparison is exact.

use crate::dense::*;

use crate::util::*;
use clarabel::algebra::*;
use clarabel::verif_hooks::{csc_gemv, csc_symv};
use serde_json::{json, Value};

fn veq(a: &[f64], b: &[f64]) -> bool {
    a.len() == b.len() && a.iter().zip(b).all(|(x, y)| x == y)
}

// ----------------------------------------------------------------------
// space 1: every m x n matrix over a value set; every operation
// ----------------------------------------------------------------------
pub struct DenseOps {
    pub m: usize,
    pub n: usize,
    pub vals: Vec<f64>,
}

impl DenseOps {
    fn decode(&self, id: u64) -> Dense {
        let mut d = Digits(id);
        let mut a = Dense::zeros(self.m, self.n);
        for k in 0..self.m * self.n {
            a.a[k] = *d.pick(&self.vals);
        }
        a
    }
}

fn xvec(n: usize, which: usize) -> Vec<f64> {
    const MENU: [[f64; 4]; 3] = [[1., -2., 3., 2.], [0., 1., -1., 2.], [2., 2., 0., -1.]];
    MENU[which][..n].to_vec()
}

impl Space for DenseOps {
    fn name(&self) -> String {
        format!("ops-{}x{}-v{}", self.m, self.n, self.vals.len())
    }
    fn size(&self) -> u64 {
        (self.vals.len() as u64).pow((self.m * self.n) as u32)
    }
    fn describe(&self, id: u64) -> Value {
        json!({"matrix_rows": self.decode(id).rows()})
    }
    fn bound(&self) -> Value {
        json!({"shape":[self.m,self.n],"values":self.vals})
    }
    fn run(&self, id: u64, ctx: &mut Ctx) -> CaseResult {
        let d = self.decode(id);
        let (m, n) = (self.m, self.n);
        // construction from rows
        let rows = d.rows();
        let a: CscMatrix<f64> = if m > 0 {
            CscMatrix::from(rows.iter().map(|r| r.iter()))
        } else {
            CscMatrix::zeros((m, n))
        };
        ensure!(a.m == m && a.n == n, "from-rows-shape", "shape {:?}", (a.m, a.n));
        ensure!(is_canonical(&a), "from-rows-not-canonical", "{:?}", a);
        ensure!(a.check_format().is_ok(), "check_format-rejects-canonical", "{:?}", a);
        ensure!(csc_to_dense(&a) == d, "from-rows-values", "{:?}", a);
        let nnz = d.a.iter().filter(|v| **v != 0.0).count();
        ensure!(a.nnz() == nnz, "nnz", "{} vs {}", a.nnz(), nnz);
        ctx.transitions += 4;
        if nnz > 0 {
            ctx.nontrivial += 1;
        }

        // transpose
        let at: CscMatrix<f64> = a.t().into();
        ensure!(is_canonical(&at), "transpose-not-canonical", "{:?}", at);
        ensure!(csc_to_dense(&at) == d.t(), "transpose-values", "{:?}", at);
        
        // index_to_coord / get_entry
        for idx in 0..a.nnz() {
            let (r, c) = a.index_to_coord(idx);
            ensure!(
                r < m && c < n && a.rowval[idx] == r && a.colptr[c] <= idx && idx < a.colptr[c + 1],
                "index_to_coord",
                "idx {} -> ({},{}) in {:?}",
                idx,
                r,
                c,
                a
            );
        }
        for i in 0..m {
            for j in 0..n {
                let g = a.get_entry((i, j));
                let want = if d.at(i, j) != 0.0 { Some(d.at(i, j)) } else { None };
                ensure!(g == want, "get_entry", "({},{}) got {:?} want {:?}", i, j, g, want);
            }
        }
        ctx.transitions += (a.nnz() + m * n + 3) as u64;

        // set_entry: overwrite, insert, insert-zero (no-op) ; then dropzeros
        for i in 0..m {
            for j in 0..n {
                for &v in &[0.0, 5.0] {
                    let mut b = a.clone();
                    b.set_entry((i, j), v);
                    let mut dd = d.clone();
                    dd.set(i, j, v);
                    ensure!(is_canonical(&b), "set_entry-not-canonical", "({},{})={} -> {:?}", i, j, v, b);
                    ensure!(csc_to_dense(&b) == dd, "set_entry-values", "({},{})={} -> {:?}", i, j, v, b);
                    if v == 0.0 {
                        // no new storage for inserted zeros
                        ensure!(b.nnz() == a.nnz(), "set_entry-zero-allocates", "{:?}", b);
                        b.dropzeros();
                        ensure!(is_canonical(&b), "dropzeros-not-canonical", "{:?}", b);
                        ensure!(csc_to_dense(&b) == dd, "dropzeros-values", "{:?}", b);
                        let nz = dd.a.iter().filter(|v| **v != 0.0).count();
                        ensure!(b.nnz() == nz, "dropzeros-keeps-zero", "{:?}", b);
                    }
                    ctx.transitions += 2;
                }
            }
        }

        // select_rows, all masks
        for mask in 0..(1u32 << m) {
            let keep: Vec<bool> = (0..m).map(|i| mask >> i & 1 == 1).collect();
            let b = a.select_rows(&keep);
            let rr: Vec<Vec<f64>> = (0..m).filter(|&i| keep[i]).map(|i| rows[i].clone()).collect();
            let dd = Dense::from_rows(&rr, n);
            ensure!(is_canonical(&b), "select_rows-not-canonical", "mask {:?} -> {:?}", keep, b);
            ensure!(b.m == dd.m && b.n == n && csc_to_dense(&b) == dd, "select_rows-values", "mask {:?} -> {:?}", keep, b);
            ctx.transitions += 1;
        }

        // gemv N and T over the four fast paths of a and b
        let coefs = [0.0, 1.0, -1.0, 2.0];
        for which in 0..2 {
            let x = xvec(n, which);
            let xt = xvec(m, which + 1);
            let y0 = xvec(m, 2);
            let y0t = xvec(n, 2);
            let ax = d.mulvec(&x);
            let atx = d.tmulvec(&xt);
            for &ca in &coefs {
                for &cb in &coefs {
                    let mut y = y0.clone();
                    csc_gemv(&a, false, &mut y, &x, ca, cb);
                    let want: Vec<f64> = (0..m).map(|i| ca * ax[i] + cb * y0[i]).collect();
                    ensure!(veq(&y, &want), "gemv-N", "a={} b={} got {:?} want {:?}", ca, cb, y, want);
                    let mut y = y0t.clone();
                    csc_gemv(&a, true, &mut y, &xt, ca, cb);
                    let want: Vec<f64> = (0..n).map(|j| ca * atx[j] + cb * y0t[j]).collect();
                    ensure!(veq(&y, &want), "gemv-T", "a={} b={} got {:?} want {:?}", ca, cb, y, want);
                    ctx.transitions += 2;
                }
            }
        }

        // norms, sums, scalings
        {
            let mut cs = vec![9.0; n];
            a.col_sums(&mut cs);
            let want: Vec<f64> = (0..n).map(|j| (0..m).map(|i| d.at(i, j)).sum()).collect();
            ensure!(veq(&cs, &want), "col_sums", "{:?} vs {:?}", cs, want);
            let mut rs = vec![9.0; m];
            a.row_sums(&mut rs);
            let want: Vec<f64> = (0..m).map(|i| (0..n).map(|j| d.at(i, j)).sum()).collect();
            ensure!(veq(&rs, &want), "row_sums", "{:?} vs {:?}", rs, want);
            let mut cn = vec![9.0; n];
            a.col_norms(&mut cn);
            let wantc: Vec<f64> = (0..n).map(|j| (0..m).fold(0.0, |t, i| f64::max(t, d.at(i, j).abs()))).collect();
            ensure!(veq(&cn, &wantc), "col_norms", "{:?} vs {:?}", cn, wantc);
            let mut cn = vec![1.5; n];
            a.col_norms_no_reset(&mut cn);
            let want: Vec<f64> = wantc.iter().map(|v| f64::max(*v, 1.5)).collect();
            ensure!(veq(&cn, &want), "col_norms_no_reset", "{:?} vs {:?}", cn, want);
            let mut rn = vec![9.0; m];
            a.row_norms(&mut rn);
            let wantr: Vec<f64> = (0..m).map(|i| (0..n).fold(0.0, |t, j| f64::max(t, d.at(i, j).abs()))).collect();
            ensure!(veq(&rn, &wantr), "row_norms", "{:?} vs {:?}", rn, wantr);
            let mut rn = vec![1.5; m];
            a.row_norms_no_reset(&mut rn);
            let want: Vec<f64> = wantr.iter().map(|v| f64::max(*v, 1.5)).collect();
            ensure!(veq(&rn, &want), "row_norms_no_reset", "{:?} vs {:?}", rn, want);

            let l = xvec(m, 0);
            let r = xvec(n, 2);
            let mut b = a.clone();
            b.lscale(&l);
            let mut dd = d.clone();
            for i in 0..m {
                for j in 0..n {
                    dd.set(i, j, l[i] * d.at(i, j));
                }
            }
            ensure!(b.is_equal_sparsity(&a) && csc_to_dense(&b) == dd, "lscale", "{:?}", b);
            let mut b = a.clone();
            b.rscale(&r);
            for i in 0..m {
                for j in 0..n {
                    dd.set(i, j, r[j] * d.at(i, j));
                }
            }
            ensure!(b.is_equal_sparsity(&a) && csc_to_dense(&b) == dd, "rscale", "{:?}", b);
            let mut b = a.clone();
            b.lrscale(&l, &r);
            for i in 0..m {
                for j in 0..n {
                    dd.set(i, j, l[i] * r[j] * d.at(i, j));
                }
            }
            ensure!(b.is_equal_sparsity(&a) && csc_to_dense(&b) == dd, "lrscale", "{:?}", b);
            let mut b = a.clone();
            b.scale(-3.0);
            for k in 0..dd.a.len() {
                dd.a[k] = -3.0 * d.a[k];
            }
            ensure!(b.is_equal_sparsity(&a) && csc_to_dense(&b) == dd, "scale", "{:?}", b);
            let mut b = a.clone();
            b.negate();
            for k in 0..dd.a.len() {
                dd.a[k] = -d.a[k];
            }
            ensure!(b.is_equal_sparsity(&a) && csc_to_dense(&b) == dd, "negate", "{:?}", b);
            ctx.transitions += 11;
        }

        // square-only operations
        if m == n {
            let tri = a.to_triu();
            ensure!(is_canonical(&tri), "to_triu-not-canonical", "{:?}", tri);
            ensure!(csc_to_dense(&tri) == d.triu(), "to_triu-values", "{:?}", tri);
            ensure!(tri.is_triu(), "is_triu-false-on-triu", "{:?}", tri);
            let lower_nz = (0..m).any(|i| (0..i).any(|j| d.at(i, j) != 0.0));
            ensure!(a.is_triu() == !lower_nz, "is_triu", "{:?}", a);
            let s = d.triu().sym_from_triu();
            // symv & quad_form on the triu matrix
            for which in 0..2 {
                let x = xvec(n, which);
                let y0 = xvec(n, which + 1);
                let sx = s.mulvec(&x);
                for &ca in &[0.0, 1.0, -1.0, 2.0] {
                    for &cb in &[0.0, 1.0, -1.0, 2.0] {
                        let mut y = y0.clone();
                        csc_symv(&tri, &mut y, &x, ca, cb);
                        let want: Vec<f64> = (0..n).map(|i| ca * sx[i] + cb * y0[i]).collect();
                        ensure!(veq(&y, &want), "symv", "a={} b={} got {:?} want {:?}", ca, cb, y, want);
                    }
                }
                let q = tri.quad_form(&y0, &x);
                let want = dot(&y0, &sx);
                ensure!(q == want, "quad_form", "{} vs {}", q, want);
            }
            let mut cn = vec![9.0; n];
            tri.col_norms_sym(&mut cn);
            let want: Vec<f64> = (0..n).map(|j| (0..n).fold(0.0, |t, i| f64::max(t, s.at(i, j).abs()))).collect();
            ensure!(veq(&cn, &want), "col_norms_sym", "{:?} vs {:?}", cn, want);
            let mut cn = vec![1.5; n];
            tri.col_norms_sym_no_reset(&mut cn);
            let want: Vec<f64> = want.iter().map(|v| f64::max(*v, 1.5)).collect();
            ensure!(veq(&cn, &want), "col_norms_sym_no_reset", "{:?} vs {:?}", cn, want);
            ctx.transitions += 40;
        }
        ctx.outcome("ok");
        Ok(())
    }
}

// ----------------------------------------------------------------------
// space 2: all triplet sequences up to a length on a g x g grid
// ----------------------------------------------------------------------
pub struct Triplets {
    pub g: usize,
    pub len: usize,
    pub vals: Vec<f64>,
}
impl Triplets {
    fn decode(&self, id: u64) -> (Vec<usize>, Vec<usize>, Vec<f64>) {
        let mut d = Digits(id);
        let (mut i, mut j, mut v) = (vec![], vec![], vec![]);
        for _ in 0..self.len {
            i.push(d.take(self.g as u64) as usize);
            j.push(d.take(self.g as u64) as usize);
            v.push(*d.pick(&self.vals));
        }
        (i, j, v)
    }
}
impl Space for Triplets {
    fn name(&self) -> String {
        format!("triplets-len{}-grid{}", self.len, self.g)
    }
    fn size(&self) -> u64 {
        ((self.g * self.g * self.vals.len()) as u64).pow(self.len as u32)
    }
    fn describe(&self, id: u64) -> Value {
        let (i, j, v) = self.decode(id);
        json!({"I":i,"J":j,"V":v,"shape":[self.g,self.g]})
    }
    fn bound(&self) -> Value {
        json!({"grid":self.g,"length":self.len,"values":self.vals})
    }
    fn run(&self, id: u64, ctx: &mut Ctx) -> CaseResult {
        let (i, j, v) = self.decode(id);
        let mut d = Dense::zeros(self.g, self.g);
        let mut mask = vec![false; self.g * self.g];
        for k in 0..self.len {
            d.add(i[k], j[k], v[k]);
            mask[i[k] * self.g + j[k]] = true;
        }
        let a = CscMatrix::new_from_triplets(self.g, self.g, i.clone(), j.clone(), v.clone());
        ensure!(is_canonical(&a), "triplets-not-canonical", "{:?}", a);
        ensure!(a.check_format().is_ok(), "check_format-rejects-canonical", "{:?}", a);
        ensure!(csc_to_dense(&a) == d, "triplets-values", "{:?} vs {:?}", a, d.rows());
        // structure: exactly the touched positions
        let touched = mask.iter().filter(|b| **b).count();
        ensure!(a.nnz() == touched, "triplets-structure", "nnz {} touched {}", a.nnz(), touched);
        let dup = touched < self.len;
        ctx.outcome(if dup { "with-duplicates" } else { "distinct" });
        if dup {
            ctx.nontrivial += 1;
        }
        ctx.transitions += 1;
        Ok(())
    }
}

// ----------------------------------------------------------------------
// space 3: all raw encodings -> check_format accepts exactly the canonical ones,
// canonicalize repairs every dimensionally valid, in-range encoding
// ----------------------------------------------------------------------
pub struct RawEnc {
    pub maxn: usize, // n in 0..=maxn
    pub maxk: usize, // rowval length 0..=maxk
    pub maxv: usize, // colptr / rowval entries in 0..=maxv
}
impl RawEnc {
    // enumerate as a flat list of (n, colptr_len, k, nz_len_delta) blocks
    fn blocks(&self) -> Vec<(usize, usize, usize, usize, u64)> {
        let mut out = vec![];
        let base = (self.maxv + 1) as u64;
        for n in 0..=self.maxn {
            for cl in [n, n + 1, n + 2] {
                for k in 0..=self.maxk {
                    for dz in 0..2usize {
                        // m in 1..=3
                        let cnt = 3 * base.pow(cl as u32) * base.pow(k as u32);
                        out.push((n, cl, k, dz, cnt));
                    }
                }
            }
        }
        out
    }
    fn decode(&self, mut id: u64) -> CscMatrix<f64> {
        for (n, cl, k, dz, cnt) in self.blocks() {
            if id < cnt {
                let mut d = Digits(id);
                let m = 1 + d.take(3) as usize;
                let base = (self.maxv + 1) as u64;
                let colptr: Vec<usize> = (0..cl).map(|_| d.take(base) as usize).collect();
                let rowval: Vec<usize> = (0..k).map(|_| d.take(base) as usize).collect();
                let nzval: Vec<f64> = (0..k + dz).map(|i| (i + 1) as f64).collect();
                return CscMatrix {
                    m,
                    n,
                    colptr,
                    rowval,
                    nzval,
                };
            }
            id -= cnt;
        }
        unreachable!()
    }
}
impl Space for RawEnc {
    fn name(&self) -> String {
        format!("raw-encodings-n{}-k{}-v{}", self.maxn, self.maxk, self.maxv)
    }
    fn size(&self) -> u64 {
        self.blocks().iter().map(|b| b.4).sum()
    }
    fn describe(&self, id: u64) -> Value {
        let a = self.decode(id);
        json!({"m":a.m,"n":a.n,"colptr":a.colptr,"rowval":a.rowval,"nzval":a.nzval})
    }
    fn bound(&self) -> Value {
        json!({"n<=":self.maxn,"nnz<=":self.maxk,"entries<=":self.maxv,"m":"1..3","colptr_len":"n,n+1,n+2","nzval_len":"k,k+1"})
    }
    fn run(&self, id: u64, ctx: &mut Ctx) -> CaseResult {
        let a = self.decode(id);
        let canon = is_canonical(&a);
        let got = guarded(|| a.check_format().is_ok());
        let got = match got {
            Ok(g) => g,
            Err(p) => {
                return Err(Violation::new("check_format-panics", format!("{:?}: {}", a, p)));
            }
        };
        ctx.transitions += 1;
        if got && !canon {
            // distinguish the ways of being non-canonical for known-finding matching
            let why = if a.colptr.len() == a.n + 1 && a.colptr[0] != 0 {
                "colptr0-nonzero"
            } else {
                "other"
            };
            return Err(Violation::new(
                format!("check_format-accepts-noncanonical:{}", why),
                format!("{:?}", a),
            ));
        }
        ensure!(!(canon && !got), "check_format-rejects-canonical", "{:?}", a);
        ctx.outcome(if canon { "canonical" } else { "rejected" });

        // canonicalize: for encodings that are dimensionally sound and in range
        let dims_ok = a.rowval.len() == a.nzval.len()
            && a.colptr.len() == a.n + 1
            && a.colptr[0] == 0
            && a.colptr[a.n] == a.rowval.len()
            && a.colptr.windows(2).all(|w| w[0] <= w[1]);
        let in_range = a.rowval.iter().all(|r| *r < a.m);
        if dims_ok && in_range {
            ctx.nontrivial += 1;
            let want = csc_to_dense(&a);
            let mut b = a.clone();
            let r = guarded(|| b.canonicalize().is_ok());
            match r {
                Ok(true) => {}
                Ok(false) => return Err(Violation::new("canonicalize-err-on-valid", format!("{:?}", a))),
                Err(p) => return Err(Violation::new("canonicalize-panics", format!("{:?}: {}", a, p))),
            }
            ensure!(is_canonical(&b), "canonicalize-not-canonical", "{:?} -> {:?}", a, b);
            ensure!(csc_to_dense(&b) == want, "canonicalize-values", "{:?} -> {:?}", a, b);
            ctx.outcome("canonicalized");
            ctx.transitions += 1;
        } else {
            // must not panic and must not claim success while leaving garbage
            let mut b = a.clone();
            let r = guarded(|| b.canonicalize().is_ok());
            match r {
                Ok(true) => {
                    // success is only acceptable if the result really is canonical
                    ensure!(
                        is_canonical(&b) || !in_range,
                        "canonicalize-ok-but-noncanonical",
                        "{:?} -> {:?}",
                        a,
                        b
                    );
                }
                Ok(false) => {}
                Err(_p) => {
                    // documented: "Panics if the matrix initial dimensions are incompatible" — tolerated
                    ctx.outcome("canonicalize-panic-on-bad-dims");
                }
            }
        }
        Ok(())
    }
}

// ----------------------------------------------------------------------
// space 4: block concatenation over all tuples of small blocks
// ----------------------------------------------------------------------
fn all_blocks(vals: &[f64], shapes: &[(usize, usize)]) -> Vec<Dense> {
    let mut out = vec![];
    for &(m, n) in shapes {
        let cnt = (vals.len() as u64).pow((m * n) as u32);
        for id in 0..cnt {
            let mut d = Digits(id);
            let mut a = Dense::zeros(m, n);
            for k in 0..m * n {
                a.a[k] = *d.pick(vals);
            }
            out.push(a);
        }
    }
    out
}

/// block grids of every shape up to 3 block rows x 3 block columns with all row heights and column widths in
/// {1,2} and two fill patterns per block: hvcat / blockdiag against dense placement; one grid cell optionally
/// gets a wrong height (must be refused)
pub struct Grids;
impl Grids {
    fn shapes() -> Vec<(usize, usize)> {
        let mut v = vec![];
        for r in 1..=3 {
            for c in 1..=3 {
                if r * c <= 6 {
                    v.push((r, c));
                }
            }
        }
        v
    }
    fn per(r: usize, c: usize) -> u64 {
        (1u64 << r) * (1u64 << c) * (1u64 << (r * c)) * (r * c + 1) as u64
    }
    fn decode(id: u64) -> (usize, usize, Vec<usize>, Vec<usize>, u64, usize) {
        let mut id = id;
        for (r, c) in Self::shapes() {
            let n = Self::per(r, c);
            if id < n {
                let mut d = Digits(id);
                let hs: Vec<usize> = (0..r).map(|_| d.take(2) as usize + 1).collect();
                let ws: Vec<usize> = (0..c).map(|_| d.take(2) as usize + 1).collect();
                let fill = d.take(1 << (r * c));
                let bad = d.take((r * c + 1) as u64) as usize; // 0 = none, k = cell k-1 one row taller
                return (r, c, hs, ws, fill, bad);
            }
            id -= n;
        }
        unreachable!()
    }
}
impl Space for Grids {
    fn name(&self) -> String {
        "block-grids<=3x3".into()
    }
    fn size(&self) -> u64 {
        Self::shapes().iter().map(|(r, c)| Self::per(*r, *c)).sum()
    }
    fn describe(&self, id: u64) -> Value {
        let (r, c, hs, ws, fill, bad) = Self::decode(id);
        json!({"block_rows": r, "block_cols": c, "row_heights": hs, "col_widths": ws, "fill_bits": fill, "mismatching_cell": bad})
    }
    fn bound(&self) -> Value {
        json!({"grids": "1..3 x 1..3 (at most 6 cells)", "heights_widths": [1,2], "fills_per_block": 2, "one_mismatching_cell": true})
    }
    fn run(&self, id: u64, ctx: &mut Ctx) -> CaseResult {
        let (r, c, hs, ws, fill, bad) = Self::decode(id);
        let mut blocks: Vec<Vec<Dense>> = vec![];
        let mut cell = 0usize;
        for i in 0..r {
            let mut row = vec![];
            for j in 0..c {
                let h = hs[i] + usize::from(bad == cell + 1);
                let mut b = Dense::zeros(h, ws[j]);
                for a in 0..h {
                    for t in 0..ws[j] {
                        let dense = fill >> cell & 1 == 1;
                        if dense || (a + t) % 2 == 0 {
                            b.set(a, t, (10 * (cell + 1) + 3 * a + t) as f64);
                        }
                    }
                }
                row.push(b);
                cell += 1;
            }
            blocks.push(row);
        }
        let cs: Vec<Vec<CscMatrix<f64>>> = blocks.iter().map(|row| row.iter().map(|b| b.to_csc()).collect()).collect();
        let refs: Vec<Vec<&CscMatrix<f64>>> = cs.iter().map(|row| row.iter().collect()).collect();
        let rr: Vec<&[&CscMatrix<f64>]> = refs.iter().map(|row| row.as_slice()).collect();
        let res = guarded(|| CscMatrix::hvcat(&rr)).map_err(|e| Violation::new("hvcat-panics", e))?;
        ctx.transitions += 1;
        if bad != 0 && c > 1 {
            ensure!(res.is_err(), "hvcat-accepts-mismatch", "cell {} is one row taller: {:?}", bad - 1, blocks);
            ctx.outcome("hvcat-err");
            return Ok(());
        }
        if bad != 0 {
            // a single block column: a taller block is simply a taller block row
            ctx.outcome("single-column-taller-block(valid)");
        }
        let Ok(h) = res else {
            return Err(Violation::new("hvcat-err-on-compatible", format!("{:?}", blocks)));
        };
        let heights: Vec<usize> = blocks.iter().map(|row| row[0].m).collect();
        let (m, n) = (heights.iter().sum::<usize>(), ws.iter().sum::<usize>());
        let mut w = Dense::zeros(m, n);
        let mut r0 = 0;
        for (i, row) in blocks.iter().enumerate() {
            let mut c0 = 0;
            for (j, b) in row.iter().enumerate() {
                place(&mut w, b, r0, c0);
                c0 += ws[j];
            }
            r0 += heights[i];
        }
        ensure!(is_canonical(&h), "hvcat-not-canonical", "{:?}", h);
        ensure!((h.m, h.n) == (m, n) && csc_to_dense(&h) == w, "hvcat-values", "{:?} vs {:?}", h, w.rows());
        ctx.outcome("hvcat-ok");
        ctx.nontrivial += 1;
        Ok(())
    }
}

pub struct Concat {
    pub blocks: Vec<Dense>,
    pub arity: usize, // 2: hcat, vcat, blockdiag(2) ; 4: hvcat 2x2 + blockdiag(4→ first 3)
}
impl Concat {
    pub fn new(vals: &[f64], shapes: &[(usize, usize)], arity: usize) -> Self {
        Self {
            blocks: all_blocks(vals, shapes),
            arity,
        }
    }
    fn decode(&self, id: u64) -> Vec<&Dense> {
        let mut d = Digits(id);
        (0..self.arity).map(|_| d.pick(&self.blocks)).collect()
    }
}
fn place(dst: &mut Dense, src: &Dense, r0: usize, c0: usize) {
    for i in 0..src.m {
        for j in 0..src.n {
            dst.set(r0 + i, c0 + j, src.at(i, j));
        }
    }
}
impl Space for Concat {
    fn name(&self) -> String {
        format!("concat-arity{}-blocks{}", self.arity, self.blocks.len())
    }
    fn size(&self) -> u64 {
        (self.blocks.len() as u64).pow(self.arity as u32)
    }
    fn describe(&self, id: u64) -> Value {
        let b = self.decode(id);
        json!({"blocks": b.iter().map(|d| json!({"m":d.m,"n":d.n,"rows":d.rows()})).collect::<Vec<_>>() })
    }
    fn bound(&self) -> Value {
        json!({"arity":self.arity,"nblocks":self.blocks.len()})
    }
    fn run(&self, id: u64, ctx: &mut Ctx) -> CaseResult {
        let bd = self.decode(id);
        let bs: Vec<CscMatrix<f64>> = bd.iter().map(|d| d.to_csc()).collect();
        if self.arity == 2 {
            let (a, b) = (&bs[0], &bs[1]);
            let (da, db) = (bd[0], bd[1]);
            // hcat
            let r = CscMatrix::hcat(a, b);
            if da.m == db.m {
                let Ok(h) = r else {
                    return Err(Violation::new("hcat-err-on-compatible", format!("{:?} {:?}", a, b)));
                };
                let mut w = Dense::zeros(da.m, da.n + db.n);
                place(&mut w, da, 0, 0);
                place(&mut w, db, 0, da.n);
                ensure!(is_canonical(&h), "hcat-not-canonical", "{:?}", h);
                ensure!((h.m, h.n) == (w.m, w.n) && csc_to_dense(&h) == w, "hcat-values", "{:?}", h);
                ctx.outcome("hcat-ok");
            } else {
                ensure!(r.is_err(), "hcat-accepts-mismatch", "{:?} {:?}", a, b);
                ctx.outcome("hcat-err");
            }
            // vcat
            let r = CscMatrix::vcat(a, b);
            if da.n == db.n {
                let Ok(h) = r else {
                    return Err(Violation::new("vcat-err-on-compatible", format!("{:?} {:?}", a, b)));
                };
                let mut w = Dense::zeros(da.m + db.m, da.n);
                place(&mut w, da, 0, 0);
                place(&mut w, db, da.m, 0);
                ensure!(is_canonical(&h), "vcat-not-canonical", "{:?}", h);
                ensure!((h.m, h.n) == (w.m, w.n) && csc_to_dense(&h) == w, "vcat-values", "{:?}", h);
                ctx.outcome("vcat-ok");
            } else {
                ensure!(r.is_err(), "vcat-accepts-mismatch", "{:?} {:?}", a, b);
                ctx.outcome("vcat-err");
            }
            // blockdiag
            let Ok(h) = CscMatrix::blockdiag(&[a, b]) else {
                return Err(Violation::new("blockdiag-err", format!("{:?} {:?}", a, b)));
            };
            let mut w = Dense::zeros(da.m + db.m, da.n + db.n);
            place(&mut w, da, 0, 0);
            place(&mut w, db, da.m, da.n);
            ensure!(is_canonical(&h), "blockdiag-not-canonical", "{:?}", h);
            ensure!((h.m, h.n) == (w.m, w.n) && csc_to_dense(&h) == w, "blockdiag-values", "{:?}", h);
            ctx.transitions += 3;
            ctx.nontrivial += 1;
        } else {
            // hvcat [[b0 b1];[b2 b3]]
            let ok = bd[0].m == bd[1].m && bd[2].m == bd[3].m && bd[0].n == bd[2].n && bd[1].n == bd[3].n;
            let r = CscMatrix::hvcat(&[&[&bs[0], &bs[1]], &[&bs[2], &bs[3]]]);
            if ok {
                let Ok(h) = r else {
                    return Err(Violation::new("hvcat-err-on-compatible", format!("{:?}", bs)));
                };
                let mut w = Dense::zeros(bd[0].m + bd[2].m, bd[0].n + bd[1].n);
                place(&mut w, bd[0], 0, 0);
                place(&mut w, bd[1], 0, bd[0].n);
                place(&mut w, bd[2], bd[0].m, 0);
                place(&mut w, bd[3], bd[0].m, bd[0].n);
                ensure!(is_canonical(&h), "hvcat-not-canonical", "{:?}", h);
                ensure!((h.m, h.n) == (w.m, w.n) && csc_to_dense(&h) == w, "hvcat-values", "{:?}", h);
                ctx.outcome("hvcat-ok");
                ctx.nontrivial += 1;
            } else {
                ensure!(r.is_err(), "hvcat-accepts-mismatch", "{:?}", bs);
                ctx.outcome("hvcat-err");
            }
            // blockdiag of 3
            let Ok(h) = CscMatrix::blockdiag(&[&bs[0], &bs[1], &bs[2]]) else {
                return Err(Violation::new("blockdiag-err", format!("{:?}", bs)));
            };
            let mut w = Dense::zeros(bd[0].m + bd[1].m + bd[2].m, bd[0].n + bd[1].n + bd[2].n);
            place(&mut w, bd[0], 0, 0);
            place(&mut w, bd[1], bd[0].m, bd[0].n);
            place(&mut w, bd[2], bd[0].m + bd[1].m, bd[0].n + bd[1].n);
            ensure!(is_canonical(&h), "blockdiag-not-canonical", "{:?}", h);
            ensure!((h.m, h.n) == (w.m, w.n) && csc_to_dense(&h) == w, "blockdiag-values", "{:?}", h);
            ctx.transitions += 2;
        }
        Ok(())
    }
}

// ----------------------------------------------------------------------
// supplement (labelled sampling): larger random shapes incl. empty rows/cols
// ----------------------------------------------------------------------
pub struct RandomLarge {
    pub count: u64,
    pub seed: u64,
}
impl Space for RandomLarge {
    fn name(&self) -> String {
        "random-larger-shapes(sampling)".into()
    }
    fn size(&self) -> u64 {
        self.count
    }
    fn is_sampling_supplement(&self) -> bool {
        true
    }
    fn describe(&self, id: u64) -> Value {
        json!({"seed": self.seed, "index": id})
    }
    fn run(&self, id: u64, ctx: &mut Ctx) -> CaseResult {
        let mut rng = Rng(self.seed.wrapping_mul(0x1234567).wrapping_add(id));
        let m = rng.below(12) as usize;
        let n = rng.below(12) as usize;
        let dens = rng.below(4);
        let mut d = Dense::zeros(m, n);
        for k in 0..m * n {
            if rng.below(4) < dens {
                d.a[k] = (rng.below(7) as f64) - 3.0;
            }
        }
        // triplets in random order with a split duplicate
        let (mut i, mut j, mut v) = (vec![], vec![], vec![]);
        for r in 0..m {
            for c in 0..n {
                let x = d.at(r, c);
                if x != 0.0 {
                    if rng.below(3) == 0 {
                        i.push(r);
                        j.push(c);
                        v.push(x - 1.0);
                        i.push(r);
                        j.push(c);
                        v.push(1.0);
                    } else {
                        i.push(r);
                        j.push(c);
                        v.push(x);
                    }
                }
            }
        }
        for k in (1..i.len()).rev() {
            let t = rng.below(k as u64 + 1) as usize;
            i.swap(k, t);
            j.swap(k, t);
            v.swap(k, t);
        }
        let a = CscMatrix::new_from_triplets(m, n, i, j, v);
        ensure!(is_canonical(&a), "triplets-not-canonical", "{:?}", a);
        ensure!(csc_to_dense(&a) == d, "triplets-values", "{:?}", a);
        let at: CscMatrix<f64> = a.t().into();
        ensure!(is_canonical(&at) && csc_to_dense(&at) == d.t(), "transpose-values", "{:?}", at);
        let keep: Vec<bool> = (0..m).map(|_| rng.below(2) == 0).collect();
        let b = a.select_rows(&keep);
        let rr: Vec<Vec<f64>> = (0..m).filter(|&r| keep[r]).map(|r| d.rows()[r].clone()).collect();
        ensure!(is_canonical(&b) && csc_to_dense(&b) == Dense::from_rows(&rr, n), "select_rows-values", "{:?}", b);
        let x: Vec<f64> = (0..n).map(|_| rng.below(5) as f64 - 2.0).collect();
        let mut y = vec![0.0; m];
        csc_gemv(&a, false, &mut y, &x, 1.0, 0.0);
        ensure!(veq(&y, &d.mulvec(&x)), "gemv-N", "{:?}", y);
        ctx.transitions += 4;
        Ok(())
    }
}

pub const ASSUMPTIONS: &[&str] = &[
    "all data are small integers, so sparse and dense results are compared exactly (no tolerance)",
    "gemv/symv are reached through the guarded wrappers clarabel::verif_hooks::{csc_gemv,csc_symv}",
];

pub fn spaces(tier: &str, seed: u64) -> Vec<Box<dyn Space>> {
    let thorough = tier == "thorough";
    let v4 = vec![-1.0, 0.0, 1.0, 2.0];
    let v3 = vec![-1.0, 0.0, 1.0];
    let mut spaces: Vec<Box<dyn Space>> = vec![];
    for (m, n) in [(0, 0), (0, 2), (2, 0), (1, 1), (1, 3), (2, 2), (2, 3), (3, 2), (3, 3)] {
        spaces.push(Box::new(DenseOps { m, n, vals: v4.clone() }));
    }
    spaces.push(Box::new(DenseOps {
        m: 4,
        n: 3,
        vals: if thorough { v4.clone() } else { v3.clone() },
    }));
    if thorough {
        spaces.push(Box::new(DenseOps { m: 3, n: 4, vals: v3.clone() }));
    }
    let tv = vec![1.0, -1.0, 2.0];
    for len in 0..=(if thorough { 5 } else { 4 }) {
        spaces.push(Box::new(Triplets { g: 3, len, vals: tv.clone() }));
    }
    spaces.push(Box::new(RawEnc {
        maxn: 2,
        maxk: 3,
        maxv: 3,
    }));
    if thorough {
        spaces.push(Box::new(RawEnc { maxn: 3, maxk: 4, maxv: 4 }));
    }
    let shapes = [(0, 1), (1, 0), (0, 0), (1, 1), (1, 2), (2, 1), (2, 2)];
    spaces.push(Box::new(Concat::new(&[0.0, 1.0, 2.0], &shapes, 2)));
    spaces.push(Box::new(Concat::new(&[0.0, 1.0], &shapes, 4)));
    spaces.push(Box::new(Grids));
    spaces.push(Box::new(RandomLarge {
        count: if thorough { 200000 } else { 5000 },
        seed,
    }));
    spaces
}
