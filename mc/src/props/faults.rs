//! Fault-schedule exploration: the real `solve()` loop under a scripted environment
//! (KKT failures, degraded steps, clock jumps), all schedules with <= d deviations in the
//! first K iterations.  Serves C03 (report truthful on every terminal status), C04 (limits,
//! strategy checkpoints, termination) and C20 (output on fault statuses).

use super::sweep::planted;
use crate::dense::*;
use crate::problem::*;
use crate::seams::*;
use crate::solve::*;
use crate::util::*;
use clarabel::io::ConfigurablePrintTarget;
use clarabel::solver::*;
use clarabel::verif_hooks::{observer_arm, observer_take, vclock_arm, vclock_disarm};
use serde_json::{json, Value};

pub fn bases() -> Vec<Prob> {
    use ConeSpec::*;
    vec![
        // all-symmetric: symmetric start, only the PrimalDual strategy exists
        planted(&[NN(2), SOC(3)], 3, 5, 0, 1, 2, &p_menu(3)[2], false),
        // exponential + power: starts PrimalDual, can fall back to Dual
        planted(&[Exp, Pow(0.5), NN(1)], 3, 1, 0, 0, 1, &p_menu(3)[1], false),
        // generalised power: starts (and stays) Dual
        planted(&[GenPow(vec![0.2, 0.3, 0.5], 2), Zero(1)], 3, 5, 0, 0, 2, &p_menu(3)[0], false),
        // PSD
        planted(&[PSD(2), NN(2)], 2, 1, 0, 1, 1, &p_menu(2)[3], false),
    ]
}

const ACTS: [Act; 5] = [Act::FailUpdate, Act::FailAffine, Act::FailCombined, Act::TinyStep, Act::Backwards];

/// all schedules over `k` slots with at most `d` non-nominal entries, in deviation order
pub fn schedules(k: usize, d: usize) -> Vec<Vec<Act>> {
    let mut out = vec![vec![Act::Nominal; k]];
    fn rec(k: usize, d: usize, start: usize, cur: &mut Vec<Act>, used: usize, out: &mut Vec<Vec<Act>>) {
        if used == d {
            return;
        }
        for slot in start..k {
            for a in ACTS {
                cur[slot] = a;
                out.push(cur.clone());
                rec(k, d, slot + 1, cur, used + 1, out);
                cur[slot] = Act::Nominal;
            }
        }
    }
    // generate grouped by number of deviations
    let mut all = vec![];
    rec(k, d, 0, &mut vec![Act::Nominal; k], 0, &mut all);
    all.sort_by_key(|s| s.iter().filter(|a| **a != Act::Nominal).count());
    out.extend(all);
    out
}

pub fn run_faulty(p: &Prob, st: &DefaultSettings<f64>, script: &[Act], buffer: bool) -> Result<(Run, Vec<String>, String), String> {
    guarded(|| {
        let mut solver = build_faulty(p, st.clone(), script.to_vec());
        if buffer {
            solver.info.print_to_buffer();
        }
        vclock_arm();
        observer_arm();
        solver.solve();
        let iters = observer_take();
        vclock_disarm();
        let text = if buffer { solver.info.get_print_buffer().unwrap_or_default() } else { String::new() };
        let trace = solver.kktsystem.trace.clone();
        (extract_faulty(&solver, iters), trace, text)
    })
    .map_err(|e| {
        vclock_disarm();
        let _ = observer_take();
        e
    })
}

#[derive(Clone, Copy, Debug, PartialEq)]
pub enum FJudge {
    C03,
    C04,
    C20,
}

pub struct Schedules {
    pub k: usize,
    pub d: usize,
    pub judge: FJudge,
    scheds: Vec<Vec<Act>>,
    max_iters: Vec<u32>,
}
impl Schedules {
    pub fn new(k: usize, d: usize, judge: FJudge) -> Self {
        Self {
            k,
            d,
            judge,
            scheds: schedules(k, d),
            max_iters: vec![200, 0, 1, 2, k as u32],
        }
    }
    fn decode(&self, id: u64) -> (usize, u32, Vec<Act>) {
        let mut d = Digits(id);
        let sched = d.pick(&self.scheds).clone();
        let mi = *d.pick(&self.max_iters);
        let b = d.take(bases().len() as u64) as usize;
        (b, mi, sched)
    }
}

impl Space for Schedules {
    fn name(&self) -> String {
        format!("fault-schedules-{:?}-K{}-d{}", self.judge, self.k, self.d)
    }
    fn size(&self) -> u64 {
        self.scheds.len() as u64 * self.max_iters.len() as u64 * bases().len() as u64
    }
    fn describe(&self, id: u64) -> Value {
        let (b, mi, s) = self.decode(id);
        json!({"base_problem": bases()[b].to_json(), "max_iter": mi, "schedule(iteration 1..)": s.iter().map(|a| format!("{:?}", a)).collect::<Vec<_>>()})
    }
    fn bound(&self) -> Value {
        json!({"iterations_scripted": self.k, "deviations<=": self.d, "menu": ACTS.iter().map(|a| format!("{:?}", a)).collect::<Vec<_>>(), "schedules": self.scheds.len(), "max_iter": self.max_iters})
    }
    fn debug(&self, id: u64) -> String {
        let (b, mi, s) = self.decode(id);
        let mut st = DefaultSettings::<f64>::default();
        st.verbose = true;
        st.max_iter = mi;
        match run_faulty(&bases()[b], &st, &s, true) {
            Ok((r, trace, text)) => format!("{}\n{:?}\n{:?} iters {} obj {} {}", text, trace, r.status, r.iterations, r.obj_val, r.obj_val_dual),
            Err(e) => e,
        }
    }
    fn run(&self, id: u64, ctx: &mut Ctx) -> CaseResult {
        let (b, mi, sched) = self.decode(id);
        let p = &bases()[b];
        let ss = SettingsSpec { max_iter: mi, ..Default::default() };
        let mut st = ss.build();
        st.verbose = self.judge == FJudge::C20;
        let res = run_faulty(p, &st, &sched, self.judge == FJudge::C20);
        let (r, trace, text) = match res {
            Ok(x) => x,
            Err(e) => {
                if self.judge == FJudge::C04 {
                    return Err(Violation::new(format!("panic-under-fault-schedule:{}", super::sweep::panic_site(&e)), e));
                }
                ctx.outcome("panic(judged by C04)");
                return Ok(());
            }
        };
        ctx.transitions += trace.len() as u64 + 1;
        ctx.outcome(status_name(r.status));
        let ndev = sched.iter().filter(|a| **a != Act::Nominal).count();
        if ndev > 0 {
            ctx.nontrivial += 1;
        }
        match self.judge {
            FJudge::C04 => {
                ensure!(r.status != SolverStatus::Unsolved, "nonterminal-status-under-faults", "{:?}", trace);
                ensure!(r.iterations <= mi, "iterations-exceed-max_iter-under-faults", "{} > {} ({:?})", r.iterations, mi, trace);
                // the loop must make progress: never more passes than iterations allow (+ strategy re-entries)
                ensure!(r.iters.len() as u32 <= 2 * (r.iterations + 2), "loop-spins-without-iterating", "{} passes for {} iterations", r.iters.len(), r.iterations);
                // a failed factorisation / solve with no strategy left must end in NumericalError at that iteration
                if let Some(pos) = sched.iter().position(|a| matches!(a, Act::FailUpdate | Act::FailAffine | Act::FailCombined)) {
                    let first_dev = sched.iter().position(|a| *a != Act::Nominal).unwrap();
                    let symmetric = p.cones.iter().all(|c| c.is_symmetric());
                    if first_dev == pos && symmetric && (pos as u32) < mi && r.iterations as usize == pos + 1 {
                        ensure!(
                            matches!(r.status, SolverStatus::NumericalError | SolverStatus::AlmostSolved | SolverStatus::AlmostPrimalInfeasible | SolverStatus::AlmostDualInfeasible),
                            "kkt-failure-not-reported",
                            "{:?} after {:?}",
                            r.status,
                            trace
                        );
                    }
                }
                Ok(())
            }
            FJudge::C03 => judge_c03(p, &ss, &r, 1e20),
            FJudge::C20 => super::c20::judge_output_text(p, &ss, &st, &super::c20::mask_time(text.as_bytes()), &r),
        }
    }
}

// ----------------------------------------------------------------------
// time limit under the virtual clock
// ----------------------------------------------------------------------
pub struct ClockJumps {
    pub kmax: usize,
}
const LIMIT_S: f64 = 1000.0;
impl ClockJumps {
    fn decode(&self, id: u64) -> (usize, usize, bool, bool) {
        let mut d = Digits(id);
        let u = d.take(self.kmax as u64 + 1) as usize; // 0 = no jump at all
        let verbose = d.take(2) == 1;
        let zero_limit = d.take(2) == 1;
        let b = d.take(bases().len() as u64) as usize;
        (b, u, verbose, zero_limit)
    }
}
impl Space for ClockJumps {
    fn name(&self) -> String {
        format!("clock-jumps-K{}", self.kmax)
    }
    fn size(&self) -> u64 {
        (self.kmax as u64 + 1) * 2 * 2 * bases().len() as u64
    }
    fn describe(&self, id: u64) -> Value {
        let (b, u, verbose, zero) = self.decode(id);
        json!({"base_problem": bases()[b].to_json(), "virtual_time_jump_during_iteration": u, "jump_s": 2.0*LIMIT_S, "time_limit_s": if zero {0.0} else {LIMIT_S}, "verbose": verbose})
    }
    fn bound(&self) -> Value {
        json!({"jump_iteration": format!("none, 1..={}", self.kmax), "verbose": "on/off (buffer target)", "time_limit": [0.0, LIMIT_S]})
    }
    fn run(&self, id: u64, ctx: &mut Ctx) -> CaseResult {
        let (b, u, verbose, zero_limit) = self.decode(id);
        let p = &bases()[b];
        let mut st = DefaultSettings::<f64>::default();
        st.verbose = verbose;
        st.time_limit = if zero_limit { 0.0 } else { LIMIT_S };
        let mut script = vec![Act::Nominal; self.kmax];
        if u >= 1 {
            script[u - 1] = Act::Clock((2.0 * LIMIT_S * 1e9) as u64);
        }
        let nominal = {
            let mut s2 = st.clone();
            s2.time_limit = f64::INFINITY;
            s2.verbose = false;
            run_faulty(p, &s2, &[], false).map_err(|e| Violation::new("machinery-nominal-run-panicked", e))?.0
        };
        let (r, trace, _text) = run_faulty(p, &st, &script, true).map_err(|e| Violation::new("panic-under-clock-jump", e))?;
        ctx.transitions += trace.len() as u64 + 1;
        ctx.nontrivial += 1;
        if zero_limit {
            // any positive elapsed time exceeds a zero limit: stop at the first boundary
            ensure!(r.status == SolverStatus::MaxTime && r.iterations == 0, "zero-time-limit-not-honoured", "{:?} after {} iterations", r.status, r.iterations);
            ctx.outcome("zero-limit-MaxTime@0");
            return Ok(());
        }
        if u == 0 {
            ensure!(r.status == nominal.status && r.iterations == nominal.iterations, "maxtime-without-time-passing", "{:?}@{} vs nominal {:?}@{}", r.status, r.iterations, nominal.status, nominal.iterations);
            ctx.outcome("no-jump-nominal-verdict");
            return Ok(());
        }
        let u = u as u32;
        if nominal.iterations < u {
            // the run ends before the jump happens
            ensure!(r.status == nominal.status && r.iterations == nominal.iterations, "verdict-changed-by-later-jump", "{:?}@{} vs nominal {:?}@{}", r.status, r.iterations, nominal.status, nominal.iterations);
            ctx.outcome("jump-after-termination");
            return Ok(());
        }
        // time runs out during iteration u: the next boundary is the one with counter u
        // (post-processing may upgrade a MaxTime stop to an Almost* verdict)
        let stopped = |s: SolverStatus| matches!(s, SolverStatus::MaxTime | SolverStatus::AlmostSolved | SolverStatus::AlmostPrimalInfeasible | SolverStatus::AlmostDualInfeasible);
        if stopped(r.status) && r.iterations == u {
            ctx.outcome("MaxTime-at-next-boundary");
            return Ok(());
        }
        if nominal.iterations == u && r.status == nominal.status && r.iterations == u {
            // another verdict is reached first at that very boundary (convergence is tested before limits)
            ctx.outcome("other-verdict-first");
            return Ok(());
        }
        if (stopped(r.status) && r.iterations == u + 1) || (nominal.iterations == u + 1 && r.status == nominal.status && r.iterations == u + 1) {
            return Err(Violation::new(
                "time-limit-noticed-one-boundary-late",
                format!("clock passed the limit during iteration {} but the run ended {:?} at iteration {} (verbose={})", u, r.status, r.iterations, verbose),
            ));
        }
        Err(Violation::new(
            "time-limit-not-honoured",
            format!("clock passed the limit during iteration {} but the run ended {:?} at iteration {} (nominal {:?}@{}, verbose={})", u, r.status, r.iterations, nominal.status, nominal.iterations, verbose),
        ))
    }
}


/// Virtual time passes during *each* of several solves of one solver object -- 60 % of the limit per solve,
/// so no single solve exceeds it. The time limit is per solve: every re-solve must end exactly like the first
/// (elapsed time must not accumulate across solves).
pub struct ClockResolves {
    pub resolves: usize,
}
impl Space for ClockResolves {
    fn name(&self) -> String {
        format!("clock-resolves-{}", self.resolves)
    }
    fn size(&self) -> u64 {
        2 * bases().len() as u64
    }
    fn describe(&self, id: u64) -> Value {
        json!({"base_problem": bases()[(id / 2) as usize].to_json(), "verbose": id % 2 == 1, "time_limit_s": LIMIT_S, "virtual_time_per_solve_s": 0.6 * LIMIT_S, "solves_on_one_object": self.resolves + 1})
    }
    fn bound(&self) -> Value {
        json!({"solves_on_one_object": self.resolves + 1, "virtual_time_per_solve": "0.6 x time_limit, during iteration 1"})
    }
    fn run(&self, id: u64, ctx: &mut Ctx) -> CaseResult {
        let p = &bases()[(id / 2) as usize];
        let mut st = DefaultSettings::<f64>::default();
        st.verbose = id % 2 == 1;
        st.time_limit = LIMIT_S;
        let script = vec![Act::Clock((0.6 * LIMIT_S * 1e9) as u64)];
        let out = guarded(|| {
            let mut solver = build_faulty(p, st.clone(), script.clone());
            solver.info.print_to_buffer();
            vclock_arm();
            let mut res = vec![];
            for _ in 0..=self.resolves {
                // the script applies to every solve: the seam counts iterations from the start of each one
                solver.kktsystem.loop_updates = 0;
                solver.kktsystem.in_loop = false;
                solver.solve();
                res.push((solver.solution.status, solver.solution.iterations));
            }
            vclock_disarm();
            res
        })
        .map_err(|e| {
            vclock_disarm();
            Violation::new("panic-under-clock-jump", e)
        })?;
        ctx.transitions += out.len() as u64;
        ctx.nontrivial += 1;
        ensure!(out[0].0 != SolverStatus::MaxTime, "maxtime-without-exceeding-the-limit", "first solve: {:?}", out[0]);
        for (k, r) in out.iter().enumerate().skip(1) {
            ensure!(*r == out[0], "time-limit-accumulates-across-solves", "solve #{} ended {:?} after {} iterations, the first one {:?} after {}", k + 1, r.0, r.1, out[0].0, out[0].1);
        }
        ctx.outcome(status_name(out[0].0));
        Ok(())
    }
}
