//! C11 — the assembled KKT system is the intended matrix, for every cone layout.
//! (assembly) every sparsity pattern of P and A x cone lists x both triangles: structure, maps, signs;
//! (scaling points) the real DirectLDLKKTSolver updated at lattice scaling points: eliminating the
//! auxiliary variables must reproduce exactly the operator H the cones apply, and the stored copy
//! must carry no regularisation.

use super::c13::{interior, Kind};
use crate::dense::*;
use crate::problem::*;
use crate::util::*;
use clarabel::algebra::CscMatrix;
use clarabel::solver::*;
use clarabel::verif_hooks::*;
use serde_json::{json, Value};

const PRIMES: [f64; 40] = [
    2., 3., 5., 7., 11., 13., 17., 19., 23., 29., 31., 37., 41., 43., 47., 53., 59., 61., 67., 71., 73., 79., 83., 89., 97., 101., 103., 107., 109., 113., 127., 131., 137., 139., 149., 151., 157., 163., 167., 173.,
];

fn coord_of(k: &CscMatrix<f64>, idx: usize) -> (usize, usize) {
    let mut col = 0;
    while k.colptr[col + 1] <= idx {
        col += 1;
    }
    (k.rowval[idx], col)
}

fn pdim_of(cones: &[ConeSpec]) -> usize {
    cones
        .iter()
        .map(|c| match c {
            ConeSpec::SOC(d) if *d > 4 => 2,
            ConeSpec::GenPow(_, _) => 3,
            _ => 0,
        })
        .sum()
}

pub struct Assembly {
    pub cones: Vec<ConeSpec>,
    pub n: usize,
}
impl Assembly {
    fn m(&self) -> usize {
        cones_numel(&self.cones)
    }
    fn np(&self) -> usize {
        self.n * (self.n + 1) / 2
    }
    fn decode(&self, id: u64) -> (CscMatrix<f64>, CscMatrix<f64>, bool) {
        let (n, m) = (self.n, self.m());
        let mut d = Digits(id);
        let tril = d.take(2) == 1;
        let ppat = d.take(1 << self.np());
        let apat = d.take(1u64 << (m * n).min(12));
        let mut pd = Dense::zeros(n, n);
        let mut k = 0;
        let mut pr = 0;
        for j in 0..n {
            for i in 0..=j {
                if ppat >> k & 1 == 1 {
                    pd.set(i, j, PRIMES[pr % 40]);
                    pr += 1;
                }
                k += 1;
            }
        }
        let pm = pd.clone();
        let pc = pd.to_csc_masked(&|i, j| pm.at(i, j) != 0.0);
        let mut ad = Dense::zeros(m, n);
        for t in 0..m * n {
            // with more than 12 entries the pattern repeats cyclically
            if apat >> (t % 12) & 1 == 1 {
                ad.a[t] = -PRIMES[(pr + t) % 40];
            }
        }
        (pc, ad.to_csc(), tril)
    }
}

impl Space for Assembly {
    fn name(&self) -> String {
        format!("assembly-n{}-[{}]", self.n, self.cones.iter().map(|c| c.tag()).collect::<Vec<_>>().join(","))
    }
    fn size(&self) -> u64 {
        2 * (1u64 << self.np()) * (1u64 << (self.m() * self.n).min(12))
    }
    fn describe(&self, id: u64) -> Value {
        let (p, a, tril) = self.decode(id);
        json!({"cones": self.cones.iter().map(|c| c.tag()).collect::<Vec<_>>(), "P": csc_to_dense(&p).rows(), "A": csc_to_dense(&a).rows(), "triangle": if tril {"lower"} else {"upper"}})
    }
    fn bound(&self) -> Value {
        json!({"P_patterns": 1u64 << self.np(), "A_patterns": 1u64 << (self.m()*self.n).min(12), "triangles": 2})
    }
    fn run(&self, id: u64, ctx: &mut Ctx) -> CaseResult {
        let (p, a, tril) = self.decode(id);
        let (n, m) = (self.n, self.m());
        let api: Vec<_> = self.cones.iter().map(|c| c.to_api()).collect();
        let cones = CompositeCone::<f64>::new(&api);
        let snap = guarded(|| verif_assemble_kkt(&p, &a, &cones, tril)).map_err(|e| Violation::new("assembly-panics", e))?;
        ctx.transitions += 1;
        let k = &snap.kkt;
        let pd = pdim_of(&self.cones);
        let big = n + m + pd;
        ensure!(snap.p == pd && k.m == big && k.n == big, "kkt-dimension", "p={} (want {}) size {}x{}", snap.p, pd, k.m, k.n);
        ensure!(k.check_format().is_ok(), "kkt-not-canonical", "{:?}", k);
        for j in 0..big {
            for q in k.colptr[j]..k.colptr[j + 1] {
                let i = k.rowval[q];
                ensure!(if tril { i >= j } else { i <= j }, "kkt-entry-in-wrong-triangle", "({},{})", i, j);
            }
        }
        let place = |i: usize, j: usize| if tril { (j.max(i), j.min(i)) } else { (i.min(j), i.max(j)) };
        let used = std::cell::RefCell::new(vec![false; k.nnz()]);
        let claim = |idx: usize, what: &str| -> CaseResult {
            let mut u = used.borrow_mut();
            ensure!(idx < u.len(), "map-index-out-of-range", "{} index {}", what, idx);
            ensure!(!u[idx], "map-indices-overlap", "{} index {} already claimed", what, idx);
            u[idx] = true;
            Ok(())
        };
        // P entries
        ensure!(snap.map_P.len() == p.nnz() && snap.map_A.len() == a.nnz(), "map-length", "");
        for j in 0..n {
            for q in p.colptr[j]..p.colptr[j + 1] {
                let i = p.rowval[q];
                let idx = snap.map_P[q];
                claim(idx, "P")?;
                ensure!(coord_of(k, idx) == place(i, j), "P-entry-misplaced", "P({},{}) recorded at {:?}", i, j, coord_of(k, idx));
                ensure!(k.nzval[idx] == p.nzval[q], "P-entry-value", "P({},{})={} but K holds {}", i, j, p.nzval[q], k.nzval[idx]);
            }
            for q in a.colptr[j]..a.colptr[j + 1] {
                let i = a.rowval[q];
                let idx = snap.map_A[q];
                claim(idx, "A")?;
                ensure!(coord_of(k, idx) == place(n + i, j), "A-entry-misplaced", "A({},{}) recorded at {:?}", i, j, coord_of(k, idx));
                ensure!(k.nzval[idx] == a.nzval[q], "A-entry-value", "A({},{})={} but K holds {}", i, j, a.nzval[q], k.nzval[idx]);
            }
        }
        // complete diagonal
        ensure!(snap.map_diag_full.len() == big && snap.map_diagP.len() == n, "diag-map-length", "");
        for t in 0..big {
            let idx = snap.map_diag_full[t];
            ensure!(idx < k.nnz() && coord_of(k, idx) == (t, t), "diagonal-incomplete-or-misindexed", "diag_full[{}] -> {:?}", t, if idx < k.nnz() { coord_of(k, idx) } else { (usize::MAX, usize::MAX) });
            if t < n {
                ensure!(snap.map_diagP[t] == idx, "diagP-misindexed", "{} vs {}", snap.map_diagP[t], idx);
                if !used.borrow()[idx] {
                    claim(idx, "missing P diagonal")?; // structural zero filled in
                }
            }
        }
        // Hs blocks and sparse expansions, cone by cone
        let mut off = 0; // row offset inside the cone part
        let mut hoff = 0; // offset into map_Hsblocks
        let mut pcol = n + m;
        let mut sparse_iter = snap.sparse_maps.iter();
        let mut signs_want: Vec<i8> = vec![1; n];
        signs_want.extend(vec![-1; m]);
        for c in &self.cones {
            let d = c.numel();
            let row0 = n + off;
            let expanded = matches!(c, ConeSpec::SOC(dd) if *dd > 4) || matches!(c, ConeSpec::GenPow(_, _));
            let diagonal = matches!(c, ConeSpec::Zero(_) | ConeSpec::NN(_)) || expanded;
            if diagonal {
                for t in 0..d {
                    let idx = snap.map_Hsblocks[hoff + t];
                    claim(idx, "Hs diagonal")?;
                    ensure!(coord_of(k, idx) == (row0 + t, row0 + t), "Hs-diagonal-misplaced", "cone {} entry {} at {:?}", c.tag(), t, coord_of(k, idx));
                }
                hoff += d;
            } else {
                // packed upper triangle, column by column (mirrored for the lower layout)
                let mut t = 0;
                for col in 0..d {
                    for row in 0..=col {
                        let idx = snap.map_Hsblocks[hoff + t];
                        claim(idx, "Hs dense")?;
                        ensure!(coord_of(k, idx) == place(row0 + row, row0 + col), "Hs-dense-misplaced", "cone {} block entry ({},{}) at {:?}", c.tag(), row, col, coord_of(k, idx));
                        t += 1;
                    }
                }
                hoff += d * (d + 1) / 2;
            }
            if expanded {
                let (kind, lists) = sparse_iter.next().ok_or_else(|| Violation::new("sparse-map-missing", c.tag()))?;
                match c {
                    ConeSpec::SOC(_) => {
                        ensure!(kind == "soc" && lists.len() == 3 && lists[0].len() == d && lists[1].len() == d && lists[2].len() == 2, "sparse-map-shape", "{:?}", lists);
                        // note: v occupies the first extra column, u the second
                        for (which, extra) in [(1usize, pcol), (0usize, pcol + 1)] {
                            for t in 0..d {
                                let idx = lists[which][t];
                                claim(idx, "soc u/v")?;
                                ensure!(coord_of(k, idx) == place(row0 + t, extra), "soc-expansion-misplaced", "list {} entry {} at {:?}", which, t, coord_of(k, idx));
                            }
                        }
                        for t in 0..2 {
                            let idx = lists[2][t];
                            ensure!(coord_of(k, idx) == (pcol + t, pcol + t), "soc-D-misplaced", "{:?}", coord_of(k, idx));
                            claim(idx, "soc D")?;
                        }
                        signs_want.extend([-1, 1]);
                        pcol += 2;
                    }
                    ConeSpec::GenPow(al, d2) => {
                        let d1 = al.len();
                        ensure!(kind == "genpow" && lists.len() == 4 && lists[0].len() == d && lists[1].len() == d1 && lists[2].len() == *d2, "sparse-map-shape", "{:?}", lists);
                        for t in 0..d1 {
                            let idx = lists[1][t];
                            claim(idx, "genpow q")?;
                            ensure!(coord_of(k, idx) == place(row0 + t, pcol), "genpow-q-misplaced", "{:?}", coord_of(k, idx));
                        }
                        for t in 0..*d2 {
                            let idx = lists[2][t];
                            claim(idx, "genpow r")?;
                            ensure!(coord_of(k, idx) == place(row0 + d1 + t, pcol + 1), "genpow-r-misplaced", "{:?}", coord_of(k, idx));
                        }
                        for t in 0..d {
                            let idx = lists[0][t];
                            claim(idx, "genpow p")?;
                            ensure!(coord_of(k, idx) == place(row0 + t, pcol + 2), "genpow-p-misplaced", "{:?}", coord_of(k, idx));
                        }
                        for t in 0..3 {
                            let idx = lists[3][t];
                            ensure!(coord_of(k, idx) == (pcol + t, pcol + t), "genpow-D-misplaced", "{:?}", coord_of(k, idx));
                            claim(idx, "genpow D")?;
                        }
                        signs_want.extend([-1, -1, 1]);
                        pcol += 3;
                    }
                    _ => {}
                }
            }
            off += d;
        }
        let used = used.into_inner();
        ensure!(used.iter().all(|u| *u), "kkt-has-unmapped-entries", "only {} of {} entries are claimed by a map", used.iter().filter(|u| **u).count(), used.len());
        ensure!(snap.dsigns == signs_want, "dsigns-pattern", "{:?} vs {:?}", snap.dsigns, signs_want);
        if p.nnz() + a.nnz() > 0 {
            ctx.nontrivial += 1;
        }
        Ok(())
    }
}

// ----------------------------------------------------------------------
// scaling points on the real KKT solver
// ----------------------------------------------------------------------
pub struct ScalingPoints {
    pub cones: Vec<ConeSpec>,
    pub n: usize,
    pub static_reg: bool,
}
impl ScalingPoints {
    fn npts(&self) -> u64 {
        // per-cone point index shared across cones: (dir, delta, mag) for symmetric, lattice id for nonsymmetric
        36
    }
    fn nhist(&self) -> u64 {
        // identity scaling exists only for symmetric cones
        if self.cones.iter().all(|c| matches!(c, ConeSpec::Zero(_) | ConeSpec::NN(_) | ConeSpec::SOC(_) | ConeSpec::PSD(_))) {
            7
        } else {
            4
        }
    }
    /// history of scaling operations applied to the same (cones, kkt) pair; the last one is judged
    fn history(&self, id: u64) -> Vec<Option<(Vec<f64>, Vec<f64>, f64)>> {
        let h = id / (self.npts() * self.npts() * 3);
        let a = self.points_at(id, false);
        let b = self.points_at(id, true);
        // mu < 0 marks the "poisoned" update: a degenerate scaling point (s = z = 0) whose factorisation
        // fails inside the real solver; the next regular update on the same objects must leave no trace of it
        let poison = (vec![0.0; a.0.len()], vec![0.0; a.1.len()], -1.0);
        let last = self.nhist() - 1;
        match h {
            0 => vec![Some(a)],
            1 => vec![Some(b), Some(a)],
            2 => vec![Some(a.clone()), Some(b), Some(a)],
            x if x == last => vec![Some(a.clone()), Some(poison), Some(a)],
            3 => vec![None],
            4 => vec![Some(a), None],
            _ => vec![Some(b), None, Some(a)],
        }
    }
    fn points(&self, id: u64) -> (Vec<f64>, Vec<f64>, f64) {
        self.points_at(id, false)
    }
    fn points_at(&self, id: u64, other: bool) -> (Vec<f64>, Vec<f64>, f64) {
        let mut d = Digits(id);
        let mut pi = d.take(self.npts());
        let mut qi = d.take(self.npts());
        let mu = *d.pick(&[1.0, 1e-4, 1e2]);
        if other {
            // a different scaling point of the same family (used as the earlier state in histories)
            std::mem::swap(&mut pi, &mut qi);
            pi = (pi + 7) % self.npts();
        }
        let (mut s, mut z) = (vec![], vec![]);
        for (ci, c) in self.cones.iter().enumerate() {
            let pick = |idx: u64, dual: bool| -> Vec<f64> {
                let idx = idx + ci as u64;
                let mut dd = Digits(idx % 36);
                let dir = dd.take(3) as usize;
                let delta = *dd.pick(&[1.0, 1e-2, 1e-4, 1e-8]);
                let mag = *dd.pick(&[1.0, 1e-3, 1e3]);
                match c {
                    ConeSpec::Zero(k) => vec![0.0; *k],
                    ConeSpec::NN(k) => interior(&Kind::NN(*k), dir, delta, mag),
                    ConeSpec::SOC(k) => interior(&Kind::SOC(*k), dir, delta, mag),
                    ConeSpec::PSD(k) => interior(&Kind::PSD(*k), dir, delta, mag),
                    ConeSpec::Exp => super::c15::nonsym_point(&super::c15::NKind::Exp, dual, idx % 54),
                    ConeSpec::Pow(a) => super::c15::nonsym_point(&super::c15::NKind::Pow(*a), dual, idx % 54),
                    ConeSpec::GenPow(a, d2) => super::c15::nonsym_point(&super::c15::NKind::GenPow(a.clone(), *d2), dual, idx % 54),
                }
            };
            s.extend(pick(pi, false));
            z.extend(pick(qi, true));
        }
        (s, z, mu)
    }
}
impl Space for ScalingPoints {
    fn name(&self) -> String {
        format!("scaling-points-n{}-[{}]{}", self.n, self.cones.iter().map(|c| c.tag()).collect::<Vec<_>>().join(","), if self.static_reg { "" } else { "-noreg" })
    }
    fn size(&self) -> u64 {
        self.npts() * self.npts() * 3 * self.nhist()
    }
    fn describe(&self, id: u64) -> Value {
        let (s, z, mu) = self.points(id);
        let hist: Vec<Value> = self.history(id).iter().map(|o| match o { None => json!("set_identity_scaling"), Some((_, _, mu)) if *mu < 0.0 => json!("update_scaling at s = z = 0 (factorisation expected to fail)"), Some((s, z, mu)) => json!({"update_scaling": {"s": s, "z": z, "mu": mu}}) }).collect();
        json!({"cones": self.cones.iter().map(|c| c.tag()).collect::<Vec<_>>(), "s": s, "z": z, "mu": mu, "static_regularization": self.static_reg, "history": hist})
    }
    fn bound(&self) -> Value {
        json!({"points_per_side": self.npts(), "mu": [1.0,1e-4,1e2], "histories": "U(a) | U(b)U(a) | U(a)U(b)U(a) | U(a)XU(a) (X = degenerate point whose factorisation fails) | Id | U(a)Id | U(b)IdU(a) on one (cones, kkt solver) pair, kkt.update after every operation, last state judged"})
    }
    fn run(&self, id: u64, ctx: &mut Ctx) -> CaseResult {
        let hist = self.history(id);
        let (n, m) = (self.n, cones_numel(&self.cones));
        let api: Vec<_> = self.cones.iter().map(|c| c.to_api()).collect();
        let mut cones = CompositeCone::<f64>::new(&api);
        let strategy = if cones.allows_primal_dual_scaling() { ScalingStrategy::PrimalDual } else { ScalingStrategy::Dual };
        // a small PSD P and a dense A with identifiable values
        let mut pd = Dense::zeros(n, n);
        // positive semidefinite, with a structurally missing diagonal entry in the last column
        pd.set(0, 0, 3.0);
        let pm = pd.clone();
        let pc = pd.to_csc_masked(&|i, j| pm.at(i, j) != 0.0);
        let mut ad = Dense::zeros(m, n);
        for t in 0..m * n {
            ad.a[t] = PRIMES[t % 40] / 10.0 * if t % 3 == 0 { -1.0 } else { 1.0 };
        }
        let ac = ad.to_csc();
        let mut st = DefaultSettings::<f64>::default();
        st.verbose = false;
        st.direct_solve_method = "qdldl".to_string();
        st.static_regularization_enable = self.static_reg;
        let mut kkt = DirectLDLKKTSolver::<f64>::new(&pc, &ac, &cones, m, n, &st);
        for op in &hist {
            match op {
                None => {
                    guarded(|| cones.set_identity_scaling()).map_err(|e| Violation::new("set_identity_scaling-panics", e))?;
                }
                Some((s, z, mu)) if *mu < 0.0 => {
                    // degenerate point: whatever the cones make of it (rejection, NaN scaling, panic), the KKT
                    // update that follows may fail but must not damage the solver object
                    let _ = guarded(|| cones.update_scaling(s, z, 1.0, strategy));
                    let _ = guarded(|| kkt.update(&cones, &st));
                    ctx.transitions += 2;
                    continue;
                }
                Some((s, z, mu)) => {
                    // nonsymmetric lattice points can sit on the boundary (theta = 1-1e-6 is interior; theta handled by predicates)
                    let ok = guarded(|| cones.update_scaling(s, z, *mu, strategy)).map_err(|e| Violation::new("update_scaling-panics", e))?;
                    if !ok {
                        ctx.outcome("scaling-rejected(skipped)");
                        return Ok(());
                    }
                }
            }
            let _ok = guarded(|| kkt.update(&cones, &st)).map_err(|e| Violation::new("kkt-update-panics", e))?;
            ctx.transitions += 2;
        }
        let snap = kkt.verif_snapshot().ok_or_else(|| Violation::new("machinery-no-snapshot", ""))?;
        let pdim = snap.p;
        let big = n + m + pdim;
        // dense symmetric K from the stored triangle
        let kt = csc_to_dense(&snap.kkt);
        let mut kd = Dense::zeros(big, big);
        for i in 0..big {
            for j in i..big {
                kd.set(i, j, kt.at(i, j));
                kd.set(j, i, kt.at(i, j));
            }
        }
        // top-left blocks are the user's data, unregularised (the copy is used for iterative refinement)
        for i in 0..n {
            for j in 0..n {
                let want = if i <= j { pd.at(i, j) } else { pd.at(j, i) };
                ensure!(kd.at(i, j) == want, "kkt-copy-P-block", "K({},{})={:e} but P holds {:e} (regularisation left in the copy?)", i, j, kd.at(i, j), want);
            }
            for r in 0..m {
                ensure!(kd.at(i, n + r) == ad.at(r, i), "kkt-copy-A-block", "K({},{})={:e} A({},{})={:e}", i, n + r, kd.at(i, n + r), r, i, ad.at(r, i));
            }
        }
        // dense H from the cones' own operator
        let mut h = Dense::zeros(m, m);
        {
            let mut y = vec![0.0; m];
            let mut w = vec![0.0; m];
            for c in 0..m {
                let mut e = vec![0.0; m];
                e[c] = 1.0;
                cones.mul_Hs(&mut y, &e, &mut w);
                for r in 0..m {
                    h.set(r, c, y[r]);
                }
            }
        }
        // Schur complement eliminating the auxiliary block (diagonal)
        let mut sc = Dense::zeros(m, m);
        for i in 0..m {
            for j in 0..m {
                let mut v = kd.at(n + i, n + j);
                for t in 0..pdim {
                    let dpp = kd.at(n + m + t, n + m + t);
                    ensure!(dpp != 0.0, "expansion-diagonal-zero", "aux {}", t);
                    v -= kd.at(n + i, n + m + t) * kd.at(n + m + t, n + j) / dpp;
                }
                sc.set(i, j, v);
            }
        }
        for t in 0..pdim {
            for u in 0..pdim {
                if t != u {
                    ensure!(kd.at(n + m + t, n + m + u) == 0.0, "expansion-block-not-diagonal", "");
                }
            }
            for i in 0..n {
                ensure!(kd.at(i, n + m + t) == 0.0, "expansion-couples-to-x", "");
            }
        }
        // compare -S with H, blockwise relative to each cone's scale (cones can differ by 1e20 in magnitude);
        // sparse SOC blocks lose accuracy like 1/boundary distance through the rank-two cancellation
        let mut off = 0;
        for c in &self.cones {
            let d = c.numel();
            let mut scale = 0.0f64;
            let mut aux_scale = 0.0f64;
            for i in off..off + d {
                for j in off..off + d {
                    scale = scale.max(h.at(i, j).abs());
                }
                for t in 0..pdim {
                    let dpp = kd.at(n + m + t, n + m + t);
                    aux_scale = aux_scale.max((kd.at(n + i, n + m + t) * kd.at(n + i, n + m + t) / dpp).abs());
                }
            }
            let tol = 1e-12 * scale.max(aux_scale) + 1e-300;
            for i in off..off + d {
                for j in 0..m {
                    let inside = j >= off && j < off + d;
                    let (got, want) = (-sc.at(i, j), h.at(i, j));
                    if inside {
                        ctx.measure_max("schur-vs-H err/tol", (got - want).abs() / tol);
                        ensure!((got - want).abs() <= tol, "eliminated-kkt-block-differs-from-cone-operator", "cone {} entry ({},{}) -S={:e} H={:e} (tol {:e})", c.tag(), i - off, j - off, got, want, tol);
                    } else {
                        ensure!(got == 0.0 && want == 0.0, "kkt-couples-different-cones", "({},{}) -S={:e} H={:e}", i, j, got, want);
                    }
                }
            }
            off += d;
        }
        // the auxiliary diagonal entries of sparse-expanded cones are sign-definite: each recorded sign must be
        // the sign of its own entry (a count of positive signs alone cannot tell a permuted pattern)
        for t in (n + m)..big {
            let v = kd.at(t, t);
            if v != 0.0 {
                ensure!((v > 0.0) == (snap.dsigns[t] > 0), "dsign-differs-from-sign-of-auxiliary-diagonal-entry", "position {} (auxiliary #{}): entry {:e} but recorded sign {} ({:?})", t, t - n - m, v, snap.dsigns[t], snap.dsigns);
            }
        }
        // recorded signs = inertia of the regularised matrix
        let eps = if self.static_reg { snap.diagonal_regularizer } else { 0.0 };
        let mut reg = kd.clone();
        for t in 0..big {
            let v = reg.at(t, t) + eps * snap.dsigns[t] as f64;
            reg.set(t, t, v);
        }
        let ev = sym_eigvals(&reg);
        let npos = ev.iter().filter(|v| **v > 0.0).count();
        let want_pos = snap.dsigns.iter().filter(|s| **s > 0).count();
        let tiny = ev.iter().any(|v| v.abs() < 1e-9 * ev.iter().fold(0.0f64, |t, x| t.max(x.abs())));
        if !tiny {
            ensure!(npos == want_pos, "dsigns-do-not-match-inertia", "{} positive eigenvalues but {} positive signs ({:?}); eig {:?}", npos, want_pos, snap.dsigns, ev);
        } else {
            ctx.outcome("inertia-skipped(near-singular)");
        }
        ctx.nontrivial += 1;
        Ok(())
    }
}

pub const ASSUMPTIONS: &[&str] = &[
    "assembly is reached through the guarded wrapper verif_assemble_kkt (both triangles; every compiled-in backend asks for the upper one) and the live matrix through KKTSolver::verif_snapshot",
    "values are distinct primes so that every entry identifies its source; all comparisons of user entries are exact",
    "the Schur complement of the auxiliary block is compared with the cones' mul_Hs blockwise, relative 1e-12 of max(|H|, |expansion terms|) per cone",
    "the sign pattern is compared with the inertia (Jacobi eigenvalues) of the regularised matrix; cases with an eigenvalue below 1e-9 relative are skipped as numerically singular",
];

pub fn spaces(tier: &str, _seed: u64) -> Vec<Box<dyn Space>> {
    use ConeSpec::*;
    let thorough = tier == "thorough";
    let mut v: Vec<Box<dyn Space>> = vec![];
    let atoms = vec![Zero(1), NN(1), NN(2), SOC(3), SOC(5), Exp, GenPow(vec![0.5, 0.5], 1), PSD(2), SOC(6), NN(0)];
    let lists = cone_lists(&atoms, if thorough { 3 } else { 2 }, 0, if thorough { 12 } else { 7 });
    for l in lists {
        for n in 1..=(if thorough { 3 } else { 2 }) {
            v.push(Box::new(Assembly { cones: l.clone(), n }));
        }
    }
    // lists that mix the two kinds of sparse-expanded cone (auxiliary blocks of different sizes: 2 for a large
    // second-order cone, 3 for a generalised power cone) in every order; they exceed the row cap of the lists above
    let gp = || GenPow(vec![0.5, 0.5], 1);
    let mixed: Vec<Vec<ConeSpec>> = vec![
        vec![gp(), SOC(5)],
        vec![SOC(5), gp()],
        vec![SOC(5), gp(), SOC(6)],
        vec![gp(), SOC(5), gp()],
        vec![gp(), GenPow(vec![0.2, 0.3, 0.5], 2), SOC(5)],
        vec![SOC(6), SOC(5), gp()],
        vec![NN(1), gp(), Zero(1), SOC(5)],
    ];
    for l in &mixed {
        for n in 1..=(if thorough { 2 } else { 1 }) {
            v.push(Box::new(Assembly { cones: l.clone(), n }));
        }
    }
    let sp_lists: Vec<Vec<ConeSpec>> = vec![
        vec![SOC(5), GenPow(vec![0.5, 0.5], 1)],
        vec![GenPow(vec![0.5, 0.5], 1), SOC(5), GenPow(vec![0.2, 0.3, 0.5], 2)],
        vec![NN(2), SOC(3)],
        vec![SOC(5)],
        vec![SOC(6), SOC(5), NN(1)],
        vec![Zero(1), SOC(9)],
        vec![Exp, NN(1)],
        vec![Pow(0.25)],
        vec![GenPow(vec![0.5, 0.5], 1)],
        vec![GenPow(vec![0.2, 0.3, 0.5], 2), SOC(5)],
        vec![PSD(2), NN(1)],
        vec![PSD(3), SOC(5)],
    ];
    for l in sp_lists {
        v.push(Box::new(ScalingPoints { cones: l.clone(), n: 2, static_reg: true }));
        if thorough {
            v.push(Box::new(ScalingPoints { cones: l, n: 2, static_reg: false }));
        }
    }
    v
}
