//! One module per property.  Each exposes `spaces(tier, seed)` (the complete list of
//! finite case spaces explored for that tier) and `ASSUMPTIONS`.
use crate::util::*;

pub mod c01_04;
pub mod c05;
pub mod c06;
pub mod c07;
pub mod c08;
pub mod c09;
pub mod c10;
pub mod c11;
pub mod c12;
pub mod c13;
pub mod c14;
pub mod c15;
pub mod sweep;
pub mod faults;
pub mod c16;
pub mod c17;
pub mod c18;
pub mod c19;
pub mod c20;

pub struct PropDef {
    pub id: &'static str,
    pub spaces: fn(&str, u64) -> Vec<Box<dyn Space>>,
    pub assumptions: &'static [&'static str],
    /// (quick, thorough) wall-clock caps per space in seconds; a cap that is hit is reported
    pub budget: (f64, f64),
    /// optional aggregate oracle over the finished reports
    pub post: Option<fn(&mut PropRun)>,
}

pub fn all() -> Vec<PropDef> {
    vec![
    PropDef { id: "C01", spaces: c01_04::spaces_c01, assumptions: c01_04::ASSUMPTIONS, budget: (60.0, 3000.0), post: None },
    PropDef { id: "C02", spaces: c01_04::spaces_c02, assumptions: c01_04::ASSUMPTIONS, budget: (60.0, 3000.0), post: None },
    PropDef { id: "C03", spaces: c01_04::spaces_c03, assumptions: c01_04::ASSUMPTIONS, budget: (60.0, 3000.0), post: None },
    PropDef { id: "C04", spaces: c01_04::spaces_c04, assumptions: c01_04::ASSUMPTIONS, budget: (60.0, 3000.0), post: None },
    PropDef { id: "C05", spaces: c05::spaces, assumptions: c05::ASSUMPTIONS, budget: (120.0, 3000.0), post: None },
    PropDef { id: "C06", spaces: c06::spaces, assumptions: c06::ASSUMPTIONS, budget: (120.0, 3000.0), post: Some(c06::post) },
    PropDef { id: "C07", spaces: c07::spaces, assumptions: c07::ASSUMPTIONS, budget: (120.0, 3000.0), post: None },
    PropDef { id: "C08", spaces: c08::spaces, assumptions: c08::ASSUMPTIONS, budget: (60.0, 3000.0), post: None },
    PropDef { id: "C09", spaces: c09::spaces, assumptions: c09::ASSUMPTIONS, budget: (60.0, 3000.0), post: None },
    PropDef { id: "C10", spaces: c10::spaces, assumptions: c10::ASSUMPTIONS, budget: (60.0, 3000.0), post: None },
    PropDef { id: "C14", spaces: c14::spaces, assumptions: c14::ASSUMPTIONS, budget: (120.0, 3000.0), post: None },
    PropDef { id: "C15", spaces: c15::spaces, assumptions: c15::ASSUMPTIONS, budget: (120.0, 3000.0), post: None },
    PropDef { id: "C11", spaces: c11::spaces, assumptions: c11::ASSUMPTIONS, budget: (120.0, 3000.0), post: None },
    PropDef { id: "C13", spaces: c13::spaces, assumptions: c13::ASSUMPTIONS, budget: (120.0, 3000.0), post: None },
    PropDef {
        id: "C12",
        spaces: c12::spaces,
        assumptions: c12::ASSUMPTIONS,
        budget: (40.0, 3000.0),
        post: None,
    },
    PropDef { id: "C20", spaces: c20::spaces, assumptions: c20::ASSUMPTIONS, budget: (60.0, 3000.0), post: None },
    PropDef { id: "C17", spaces: c17::spaces, assumptions: c17::ASSUMPTIONS, budget: (120.0, 3000.0), post: None },
    PropDef { id: "C18", spaces: c18::spaces, assumptions: c18::ASSUMPTIONS, budget: (120.0, 3000.0), post: None },
    PropDef { id: "C19", spaces: c19::spaces, assumptions: c19::ASSUMPTIONS, budget: (60.0, 3000.0), post: None },
    PropDef {
        id: "C16",
        spaces: c16::spaces,
        assumptions: c16::ASSUMPTIONS,
        budget: (40.0, 3000.0),
        post: None,
    },
    ]
}

pub fn find(id: &str) -> Option<PropDef> {
    all().into_iter().find(|p| p.id == id)
}

pub fn run_prop(def: &PropDef, tier: &str) -> i32 {
    let mut pr = PropRun::new(def.id, tier);
    for a in def.assumptions {
        pr.assume(a);
    }
    let budget = if tier == "thorough" { def.budget.1 } else { def.budget.0 };
    let mut spaces = (def.spaces)(tier, pr.seed);
    if let Ok(only) = std::env::var("VERIF_ONLY") {
        // debugging aid, never used by a registered command: restrict to spaces whose name contains the string
        spaces.retain(|s| s.name().contains(&only));
        pr.notes.push(format!("DEBUG RUN restricted to spaces containing '{}'", only));
    }
    for s in &spaces {
        pr.explore(s.as_ref(), budget);
    }
    if let Some(post) = def.post {
        post(&mut pr);
    }
    pr.finish()
}

/// re-execute exactly one recorded case, without the explorer
pub fn replay(path: &str) -> i32 {
    let txt = std::fs::read_to_string(path).expect("replay file");
    let v: serde_json::Value = serde_json::from_str(&txt).expect("replay json");
    let prop = v["property"].as_str().unwrap();
    let space = v["space"].as_str().unwrap();
    let id = v["case_id"].as_u64().unwrap();
    let def = find(prop).expect("unknown property");
    // the tier the case was found in comes first: spaces of the two tiers can share a name but not a decoding
    let recorded = v["tier"].as_str().unwrap_or("quick").to_string();
    let other = if recorded == "thorough" { "quick" } else { "thorough" };
    for tier in [recorded.as_str(), other] {
        for s in (def.spaces)(tier, 0) {
            if s.name() == space && (v["case"].is_null() || s.describe(id) == v["case"] || tier == other) {
                println!("replaying {} / {} / case {}: {}", prop, space, id, s.describe(id));
                if std::env::var("VERIF_DEBUG").is_ok() {
                    println!("{}", s.debug(id));
                }
                let mut ctx = Ctx::default();
                let r = match guarded(|| s.run(id, &mut ctx)) {
                    Ok(r) => r,
                    Err(p) => Err(Violation::new("harness-uncaught-panic", p)),
                };
                return match r {
                    Ok(()) => {
                        println!("case holds");
                        0
                    }
                    Err(v) => {
                        println!("VIOLATION property={} replay={}", prop, path);
                        println!("  key={} :: {}", v.key, v.detail);
                        1
                    }
                };
            }
        }
    }
    eprintln!("space {} not found", space);
    2
}
