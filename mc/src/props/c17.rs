//! C17 — chordal analysis yields a valid clique tree that covers the sparsity pattern.
//! (graphs) every labelled graph on <= 6 (thorough 7) vertices x the three merge strategies;
//! (union-find) explicit-state search of the real DisjointSetUnion over {union, in_same_set}
//! with label-symmetry reduction, reference model = partition;
//! (structured) banded / arrow / block-diagonal / balanced-clique-tree families to a few hundred vertices.

use crate::util::*;
use clarabel::verif_hooks::{verif_chordal_analysis, CliqueTreeView, VerifDSU};
use serde_json::{json, Value};
use std::collections::{BTreeSet, HashMap, HashSet, VecDeque};

const MERGES: [&str; 3] = ["none", "parent_child", "clique_graph"];
const NO_PARENT: usize = usize::MAX;

fn tri_index(i: usize, j: usize) -> usize {
    // upper-triangle svec index of (i,j), i <= j : column-major
    j * (j + 1) / 2 + i
}

/// mask over the svec of an n x n pattern from an edge predicate
fn mask_from_edges(n: usize, edge: &dyn Fn(usize, usize) -> bool) -> Vec<bool> {
    let mut m = vec![false; n * (n + 1) / 2];
    for j in 0..n {
        for i in 0..=j {
            m[tri_index(i, j)] = i == j || edge(i, j);
        }
    }
    m
}

pub fn judge_tree(n: usize, edge: &dyn Fn(usize, usize) -> bool, view: &Option<CliqueTreeView>, merge: &str, ctx: &mut Ctx) -> CaseResult {
    // connectivity / density of the pattern graph
    let dense = (0..n).all(|j| (0..j).all(|i| edge(i, j)));
    let mut comp: Vec<usize> = (0..n).collect();
    fn find(c: &mut Vec<usize>, x: usize) -> usize {
        let mut r = x;
        while c[r] != r {
            r = c[r];
        }
        c[x] = r;
        r
    }
    for j in 0..n {
        for i in 0..j {
            if edge(i, j) {
                let (a, b) = (find(&mut comp, i), find(&mut comp, j));
                comp[a] = b;
            }
        }
    }
    let ncomp = (0..n).filter(|&v| find(&mut comp, v) == v).count();
    let Some(t) = view else {
        // undecomposed: dense, or everything merged into a single clique.  (Disconnected patterns are
        // first connected by structural fill, so even they may legitimately end as one clique.)
        let _ = (ncomp, merge);
        if dense {
            ctx.outcome("dense-undecomposed");
        } else {
            ctx.outcome("single-clique-undecomposed");
        }
        return Ok(());
    };
    ensure!(!dense, "dense-pattern-decomposed", "");
    ensure!(t.n_cliques >= 2, "decomposed-with-fewer-than-two-cliques", "{}", t.n_cliques);
    // ordering is a permutation
    let mut seen = vec![false; n];
    ensure!(t.ordering.len() == n, "ordering-length", "{} vs {}", t.ordering.len(), n);
    for &v in &t.ordering {
        ensure!(v < n && !seen[v], "ordering-not-a-permutation", "{:?}", t.ordering);
        seen[v] = true;
    }
    ensure!(t.snode_post.len() >= t.n_cliques, "snode_post-too-short", "{} < {}", t.snode_post.len(), t.n_cliques);
    let active: Vec<usize> = t.snode_post[..t.n_cliques].to_vec();
    {
        let uniq: HashSet<usize> = active.iter().copied().collect();
        ensure!(uniq.len() == active.len() && active.iter().all(|c| *c < t.snode.len()), "snode_post-invalid", "{:?}", active);
    }
    // cliques in original vertex labels
    let orig = |v: usize| -> Result<usize, Violation> {
        if v < n {
            Ok(t.ordering[v])
        } else {
            Err(Violation::new("clique-vertex-out-of-range", format!("{}", v)))
        }
    };
    let mut cliques: HashMap<usize, BTreeSet<usize>> = HashMap::new();
    let mut snode_cover = vec![0usize; n];
    for &c in &active {
        let mut set = BTreeSet::new();
        for &v in &t.snode[c] {
            let o = orig(v)?;
            set.insert(o);
            snode_cover[o] += 1;
        }
        ensure!(!t.snode[c].is_empty(), "active-clique-with-empty-supernode", "clique {}", c);
        for &v in &t.separators[c] {
            set.insert(orig(v)?);
        }
        cliques.insert(c, set);
    }
    ensure!(snode_cover.iter().all(|k| *k == 1), "supernodes-do-not-partition-vertices", "{:?}", snode_cover);
    // every structural nonzero is covered by a clique
    for j in 0..n {
        for i in 0..j {
            if edge(i, j) {
                ensure!(cliques.values().any(|c| c.contains(&i) && c.contains(&j)), "pattern-entry-not-covered", "entry ({},{}) lies in no clique; cliques {:?}", i, j, cliques.values().collect::<Vec<_>>());
            }
        }
    }
    // tree structure
    let mut roots = 0;
    for &c in &active {
        let p = t.snode_parent[c];
        if p == NO_PARENT {
            roots += 1;
            ensure!(t.separators[c].is_empty(), "root-has-separator", "{:?}", t.separators[c]);
        } else {
            ensure!(active.contains(&p), "parent-is-not-an-active-clique", "clique {} parent {}", c, p);
            ensure!(p != c, "clique-is-its-own-parent", "{}", c);
            // separator = clique ∩ parent clique
            let sep: BTreeSet<usize> = t.separators[c].iter().map(|&v| t.ordering[v]).collect();
            let inter: BTreeSet<usize> = cliques[&c].intersection(&cliques[&p]).copied().collect();
            ensure!(sep == inter, "separator-is-not-intersection-with-parent", "clique {} sep {:?} but intersection with parent {} is {:?}", c, sep, p, inter);
        }
    }
    ensure!(roots == 1, "not-exactly-one-root", "{} roots among {} cliques", roots, active.len());
    for &c in &active {
        // walking up must reach the root without revisiting
        let mut cur = c;
        let mut steps = 0;
        while t.snode_parent[cur] != NO_PARENT {
            cur = t.snode_parent[cur];
            steps += 1;
            ensure!(steps <= active.len(), "parent-structure-has-a-cycle", "from clique {}", c);
        }
    }
    // running intersection: the cliques containing a vertex form a connected subtree
    for v in 0..n {
        let holders: Vec<usize> = active.iter().copied().filter(|c| cliques[c].contains(&v)).collect();
        // connected iff exactly one holder has a parent that is not a holder (or no parent)
        let tops = holders.iter().filter(|&&c| t.snode_parent[c] == NO_PARENT || !cliques[&t.snode_parent[c]].contains(&v)).count();
        ensure!(tops == 1, "running-intersection-violated", "vertex {} is held by cliques {:?} which form {} subtrees", v, holders, tops);
    }
    // post order and block sizes
    ensure!(t.nblk.len() == t.n_cliques, "nblk-length", "{} vs {}", t.nblk.len(), t.n_cliques);
    for (k, &c) in active.iter().enumerate() {
        ensure!(t.nblk[k] == cliques[&c].len(), "nblk-differs-from-clique-size", "position {} clique {} nblk {} size {}", k, c, t.nblk[k], cliques[&c].len());
        let p = t.snode_parent[c];
        if p != NO_PARENT {
            let pk = active.iter().position(|x| *x == p).unwrap();
            ensure!(pk > k, "post-order-parent-before-child", "clique {} at {} parent {} at {}", c, k, p, pk);
        }
    }
    ctx.outcome(&format!("decomposed-{}-cliques", t.n_cliques.min(6)));
    ctx.nontrivial += 1;
    Ok(())
}

pub struct AllGraphs {
    pub n: usize,
}
impl AllGraphs {
    fn ne(&self) -> usize {
        self.n * (self.n - 1) / 2
    }
}
impl Space for AllGraphs {
    fn name(&self) -> String {
        format!("all-graphs-{}-vertices", self.n)
    }
    fn size(&self) -> u64 {
        3 * (1u64 << self.ne())
    }
    fn describe(&self, id: u64) -> Value {
        let merge = MERGES[(id % 3) as usize];
        let bits = id / 3;
        let mut edges = vec![];
        let mut k = 0;
        for j in 0..self.n {
            for i in 0..j {
                if bits >> k & 1 == 1 {
                    edges.push((i, j));
                }
                k += 1;
            }
        }
        json!({"vertices": self.n, "edges": edges, "merge_method": merge})
    }
    fn bound(&self) -> Value {
        json!({"graphs": 1u64 << self.ne(), "merge_methods": MERGES})
    }
    fn run(&self, id: u64, ctx: &mut Ctx) -> CaseResult {
        let merge = MERGES[(id % 3) as usize];
        let bits = id / 3;
        let n = self.n;
        let edge = |i: usize, j: usize| -> bool {
            let (i, j) = if i < j { (i, j) } else { (j, i) };
            let k = j * (j - 1) / 2 + i;
            bits >> k & 1 == 1
        };
        let mask = mask_from_edges(n, &edge);
        let view = guarded(|| verif_chordal_analysis(&mask, n, merge)).map_err(|e| Violation::new(format!("analysis-panics:{}", super::sweep::panic_site(&e)), e))?;
        ctx.transitions += 1;
        judge_tree(n, &edge, &view, merge, ctx)
    }
}

// ----------------------------------------------------------------------
// structured families
// ----------------------------------------------------------------------
pub struct Structured {
    pub sizes: Vec<usize>,
}
const FAMILIES: [&str; 7] = ["banded1", "banded3", "arrow", "blockdiag4", "disconnected-paths", "clique-tree-binary", "cycle"];
impl Structured {
    fn edge_fn(family: &str, n: usize) -> Box<dyn Fn(usize, usize) -> bool> {
        match family {
            "banded1" => Box::new(|i, j| (i as isize - j as isize).abs() <= 1),
            "banded3" => Box::new(|i, j| (i as isize - j as isize).abs() <= 3),
            "arrow" => Box::new(move |i, j| i == n - 1 || j == n - 1 || (i as isize - j as isize).abs() <= 1 && i % 4 != 3),
            "blockdiag4" => Box::new(|i, j| i / 4 == j / 4),
            "disconnected-paths" => Box::new(|i, j| i / 5 == j / 5 && (i as isize - j as isize).abs() == 1),
            "cycle" => Box::new(move |i, j| (i as isize - j as isize).abs() == 1 || (i.min(j) == 0 && i.max(j) == n - 1)),
            // cliques of 3 vertices arranged as a balanced binary tree, consecutive cliques sharing one vertex:
            // clique k holds vertices {2k+1, 2k+2} plus the "port" vertex of its parent clique
            _ => Box::new(|i, j| {
                let (a, b) = (i.min(j), i.max(j));
                if a == b {
                    return true;
                }
                // vertex 0 is the root port; clique k = {port(k), 2k+1, 2k+2}, port(k) = (k-1)/2 * 2 + 1 + (k-1)%2 for k>0
                let clique_of = |v: usize| if v == 0 { 0 } else { (v - 1) / 2 };
                let port = |k: usize| if k == 0 { 0 } else { 2 * ((k - 1) / 2) + 1 + (k - 1) % 2 };
                let (ka, kb) = (clique_of(a), clique_of(b));
                (ka == kb && a != 0) || (a == port(kb)) || (a == 0 && kb == 0)
            }),
        }
    }
}
impl Space for Structured {
    fn name(&self) -> String {
        "structured-families".into()
    }
    fn size(&self) -> u64 {
        (self.sizes.len() * FAMILIES.len() * 3) as u64
    }
    fn describe(&self, id: u64) -> Value {
        let mut d = Digits(id);
        let merge = *d.pick(&MERGES);
        let fam = *d.pick(&FAMILIES);
        let n = *d.pick(&self.sizes);
        json!({"family": fam, "vertices": n, "merge_method": merge})
    }
    fn run(&self, id: u64, ctx: &mut Ctx) -> CaseResult {
        let mut d = Digits(id);
        let merge = *d.pick(&MERGES);
        let fam = *d.pick(&FAMILIES);
        let n = *d.pick(&self.sizes);
        let f = Self::edge_fn(fam, n);
        let edge = |i: usize, j: usize| f(i, j);
        let mask = mask_from_edges(n, &edge);
        let view = guarded(|| verif_chordal_analysis(&mask, n, merge)).map_err(|e| Violation::new(format!("analysis-panics:{}", super::sweep::panic_site(&e)), e))?;
        ctx.transitions += 1;
        judge_tree(n, &edge, &view, merge, ctx)
    }
}

// ----------------------------------------------------------------------
// all clique-tree shapes: chordal patterns built clique by clique
// ----------------------------------------------------------------------
/// Every pattern obtained from K cliques where clique i > 0 hangs below an earlier clique p(i), shares the
/// last s_i in {1,2,3} vertices of that clique (large overlaps are what makes a merge profitable: two cliques of
/// 4 sharing 3 merge, two cliques of 3 sharing 2 do not) and adds a_i in {1,2,3} new vertices; clique 0 has
/// a_0 + 1 vertices. (K-1)! * 3^K * 3^(K-1) shapes, up to 3K+1 vertices: the merge strategies see chains and stars
/// of small cliques with every combination of sizes and overlaps -- the situations in which they merge
/// repeatedly. Vertices are numbered in creation order or reversed (two labelings).
pub struct CliqueTrees {
    pub k: usize,
}
impl CliqueTrees {
    fn shapes(&self) -> u64 {
        let k = self.k as u64;
        let parents: u64 = (1..k).product::<u64>().max(1);
        parents * 3u64.pow(self.k as u32) * 3u64.pow(self.k as u32 - 1)
    }
    fn build(&self, id: u64) -> (usize, Vec<Vec<usize>>, &'static str, bool) {
        let mut d = Digits(id);
        let merge = *d.pick(&MERGES);
        let reversed = d.take(2) == 1;
        let mut cliques: Vec<Vec<usize>> = vec![];
        let mut n = 0usize;
        for i in 0..self.k {
            let a = d.take(3) as usize + 1;
            let mut c: Vec<usize> = vec![];
            if i == 0 {
                c.push(n);
                n += 1;
            } else {
                let p = d.take(i as u64) as usize;
                let s = d.take(3) as usize + 1;
                let par = &cliques[p];
                let s = s.min(par.len());
                c.extend(par[par.len() - s..].iter().cloned());
            }
            for _ in 0..a {
                c.push(n);
                n += 1;
            }
            cliques.push(c);
        }
        if reversed {
            for c in cliques.iter_mut() {
                for v in c.iter_mut() {
                    *v = n - 1 - *v;
                }
            }
        }
        (n, cliques, merge, reversed)
    }
}
impl Space for CliqueTrees {
    fn name(&self) -> String {
        format!("clique-tree-shapes-{}-cliques", self.k)
    }
    fn size(&self) -> u64 {
        self.shapes() * 3 * 2
    }
    fn describe(&self, id: u64) -> Value {
        let (n, cliques, merge, reversed) = self.build(id);
        json!({"vertices": n, "cliques": cliques, "merge_method": merge, "labels_reversed": reversed})
    }
    fn bound(&self) -> Value {
        json!({"cliques": self.k, "new_vertices_per_clique": [1,2,3], "separator_sizes": [1,2,3], "parents": "every earlier clique", "labelings": 2, "merge_methods": MERGES})
    }
    fn run(&self, id: u64, ctx: &mut Ctx) -> CaseResult {
        let (n, cliques, merge, _) = self.build(id);
        let mut adj = vec![false; n * n];
        for c in &cliques {
            for &u in c {
                for &v in c {
                    adj[u * n + v] = true;
                }
            }
        }
        let edge = |i: usize, j: usize| adj[i * n + j];
        let mask = mask_from_edges(n, &edge);
        let view = guarded(|| verif_chordal_analysis(&mask, n, merge)).map_err(|e| Violation::new(format!("analysis-panics:{}", super::sweep::panic_site(&e)), e))?;
        ctx.transitions += 1;
        judge_tree(n, &edge, &view, merge, ctx)
    }
}

// ----------------------------------------------------------------------
// "randomly for sparse graphs up to several hundred vertices": a seeded, labelled supplement
// ----------------------------------------------------------------------
pub struct RandomSparse {
    pub count: u64,
    pub seed: u64,
    pub maxn: u64,
}
impl RandomSparse {
    fn graph(&self, id: u64) -> (usize, Vec<bool>, &'static str) {
        let mut rng = Rng(self.seed.wrapping_mul(104729).wrapping_add(id / 3).wrapping_add(17));
        let n = 8 + rng.below(self.maxn - 7) as usize;
        // expected degree 2..7, independent of n
        let deg = 2 + rng.below(6);
        let mut adj = vec![false; n * n];
        for j in 0..n {
            for i in 0..j {
                if rng.below(n as u64) < deg {
                    adj[i * n + j] = true;
                    adj[j * n + i] = true;
                }
            }
        }
        (n, adj, MERGES[(id % 3) as usize])
    }
}
impl Space for RandomSparse {
    fn name(&self) -> String {
        format!("random-sparse-n<={}(sampling)", self.maxn)
    }
    fn size(&self) -> u64 {
        self.count * 3
    }
    fn is_sampling_supplement(&self) -> bool {
        true
    }
    fn describe(&self, id: u64) -> Value {
        let (n, adj, merge) = self.graph(id);
        let mut edges = vec![];
        for j in 0..n {
            for i in 0..j {
                if adj[i * n + j] {
                    edges.push((i, j));
                }
            }
        }
        json!({"seed": self.seed, "index": id, "vertices": n, "edges": edges, "merge_method": merge})
    }
    fn run(&self, id: u64, ctx: &mut Ctx) -> CaseResult {
        let (n, adj, merge) = self.graph(id);
        let edge = |i: usize, j: usize| i == j || adj[i * n + j];
        let mask = mask_from_edges(n, &edge);
        let view = guarded(|| verif_chordal_analysis(&mask, n, merge)).map_err(|e| Violation::new(format!("analysis-panics:{}", super::sweep::panic_site(&e)), e))?;
        ctx.transitions += 1;
        judge_tree(n, &edge, &view, merge, ctx)
    }
}

// ----------------------------------------------------------------------
// union-find: explicit-state search with label symmetry reduction
// ----------------------------------------------------------------------
pub struct DsuSearch {
    pub n: usize,
    pub max_states: usize,
}

/// canonical form of a (parents, ranks) forest: AHU encoding of each tree with rank labels, sorted.
/// Sound because the implementation never compares element labels (only equality of roots and ranks),
/// so isomorphic states have isomorphic futures.
fn canon(parents: &[usize], ranks: &[usize]) -> String {
    let n = parents.len();
    let mut kids: Vec<Vec<usize>> = vec![vec![]; n];
    for v in 0..n {
        if parents[v] != v {
            kids[parents[v]].push(v);
        }
    }
    fn enc(v: usize, kids: &Vec<Vec<usize>>, ranks: &[usize], depth: usize) -> String {
        if depth > 64 {
            return "CYCLE".into();
        }
        let mut cs: Vec<String> = kids[v].iter().map(|&c| enc(c, kids, ranks, depth + 1)).collect();
        cs.sort();
        format!("({}{})", ranks[v], cs.join(""))
    }
    let mut trees: Vec<String> = (0..n).filter(|&v| parents[v] == v).map(|v| enc(v, &kids, ranks, 0)).collect();
    trees.sort();
    trees.join("|")
}

fn true_root(parents: &[usize], x: usize) -> Option<usize> {
    let mut r = x;
    for _ in 0..=parents.len() {
        if parents[r] == r {
            return Some(r);
        }
        r = parents[r];
    }
    None
}

impl Space for DsuSearch {
    fn name(&self) -> String {
        format!("union-find-state-search-n{}", self.n)
    }
    fn size(&self) -> u64 {
        1
    }
    fn describe(&self, _id: u64) -> Value {
        json!({"elements": self.n, "actions": "union(x,y), in_same_set(x,y) for all ordered pairs", "search": "breadth first, de-duplicated modulo relabelling", "state_cap": self.max_states})
    }
    fn bound(&self) -> Value {
        json!({"elements": self.n, "state_cap": self.max_states})
    }
    fn run(&self, _id: u64, ctx: &mut Ctx) -> CaseResult {
        let n = self.n;
        let init: (Vec<usize>, Vec<usize>) = ((0..n).collect(), vec![0; n]);
        let mut seen: HashSet<String> = HashSet::new();
        let mut queue: VecDeque<((Vec<usize>, Vec<usize>), Vec<String>)> = VecDeque::new();
        seen.insert(canon(&init.0, &init.1));
        queue.push_back((init, vec![]));
        let mut transitions = 0u64;
        let mut capped = false;
        while let Some(((parents, ranks), hist)) = queue.pop_front() {
            // reference partition of this state
            let mut roots = vec![0usize; n];
            for v in 0..n {
                roots[v] = true_root(&parents, v).ok_or_else(|| Violation::new("union-find-state-has-a-cycle", format!("history {:?} parents {:?}", hist, parents)))?;
            }
            for x in 0..n {
                for y in 0..n {
                    for op in 0..2 {
                        let mut d = VerifDSU::from_state(parents.clone(), ranks.clone());
                        transitions += 1;
                        let label;
                        if op == 0 {
                            label = format!("in_same_set({},{})", x, y);
                            let got = d.in_same_set(x, y);
                            let want = roots[x] == roots[y];
                            ensure!(got == want, "in_same_set-wrong-answer", "after {:?}: in_same_set({},{}) = {} but the elements {} connected (parents {:?})", hist, x, y, got, if want { "are" } else { "are not" }, parents);
                        } else {
                            label = format!("union({},{})", x, y);
                            d.union(x, y);
                        }
                        let (p2, r2) = d.state();
                        // partition after the operation
                        for v in 0..n {
                            let r = true_root(&p2, v).ok_or_else(|| Violation::new("union-find-state-has-a-cycle", format!("after {:?} then {}", hist, label)))?;
                            let _ = r;
                        }
                        for a in 0..n {
                            for b in 0..n {
                                let before = roots[a] == roots[b];
                                let merged = op == 1 && ((roots[a] == roots[x] && roots[b] == roots[y]) || (roots[a] == roots[y] && roots[b] == roots[x]));
                                let want = before || merged;
                                let got = true_root(&p2, a) == true_root(&p2, b);
                                ensure!(got == want, "partition-wrong-after-operation", "after {:?} then {}: elements {} and {} {} be connected (parents {:?})", hist, label, a, b, if want { "should" } else { "should not" }, p2);
                            }
                        }
                        let key = canon(&p2, &r2);
                        if !seen.contains(&key) {
                            if seen.len() >= self.max_states {
                                capped = true;
                                continue;
                            }
                            seen.insert(key);
                            let mut h = hist.clone();
                            h.push(label);
                            queue.push_back(((p2, r2), h));
                        }
                    }
                }
            }
        }
        ctx.transitions += transitions;
        ctx.outcome_n("distinct-states(modulo relabelling)", seen.len() as u64);
        if capped {
            ctx.outcome("STATE-CAP-HIT(search incomplete)");
        }
        ctx.nontrivial += 1;
        Ok(())
    }
}

pub const ASSUMPTIONS: &[&str] = &[
    "the analysis is driven through the guarded wrapper verif_chordal_analysis, which calls the same private routine the problem-data constructor uses (diagonal forced, dense patterns returned undecomposed)",
    "a dense pattern must come back undecomposed and a decomposed one must not be dense; whether a non-dense pattern legitimately merges into a single clique is not judged (disconnected patterns are connected by structural fill first)",
    "union-find states are de-duplicated modulo relabelling of elements (AHU encoding with rank labels): the implementation compares only roots and ranks, never labels, so isomorphic states have isomorphic futures",
];

pub fn spaces(tier: &str, seed: u64) -> Vec<Box<dyn Space>> {
    let thorough = tier == "thorough";
    let mut v: Vec<Box<dyn Space>> = vec![];
    v.push(Box::new(RandomSparse { count: if thorough { 200_000 } else { 4_000 }, seed, maxn: if thorough { 300 } else { 60 } }));
    v.push(Box::new(DsuSearch { n: 6, max_states: 2_000_000 }));
    v.push(Box::new(DsuSearch { n: 8, max_states: if thorough { 5_000_000 } else { 300_000 } }));
    for n in 2..=7 {
        v.push(Box::new(AllGraphs { n }));
    }
    v.push(Box::new(Structured { sizes: if thorough { vec![8, 15, 31, 40, 63, 100, 127, 200, 255, 400] } else { vec![8, 15, 31, 40, 63, 127] } }));
    for k in 2..=(if thorough { 6 } else { 4 }) {
        v.push(Box::new(CliqueTrees { k }));
    }
    if thorough {
        // 2^28 graphs x 3 merge strategies
        v.push(Box::new(AllGraphs { n: 8 }));
    }
    if thorough {
        v.push(Box::new(DsuSearch { n: 9, max_states: 5_000_000 }));
    }
    v
}
