//! C15 — cone step lengths are safe and tight; margins / unit shifts place vectors strictly inside.
//! Real cone objects driven with every (point, direction, alpha_max, backtracking) combination of a lattice.

use super::c13::{interior, Kind, DELTAS, MAGS};
use crate::dense::*;
use crate::oracle::{margin_dual, margin_primal};
use crate::problem::ConeSpec;
use crate::util::*;
use clarabel::solver::traits::Variables;
use clarabel::solver::*;
use clarabel::verif_hooks::*;
use serde_json::{json, Value};

const ALPHAMAX: [f64; 4] = [1.0, 0.99, 0.5, 1e-3];
/// for the line search of the nonsymmetric cones also requested maxima below the minimum admissible step
/// (1e-4 / 1e-8): the first trial, alpha_max itself, is always examined
const ALPHAMAX_N: [f64; 6] = [1.0, 0.99, 0.5, 1e-3, 5e-5, 1e-9];

fn spec(kind: &Kind) -> ConeSpec {
    match kind {
        Kind::NN(d) => ConeSpec::NN(*d),
        Kind::SOC(d) => ConeSpec::SOC(*d),
        Kind::PSD(n) => ConeSpec::PSD(*n),
    }
}

/// direction menu for a point v of dimension n
fn ndirs(n: usize) -> u64 {
    (10 + 2 * n) as u64
}
fn direction(kind: &Kind, v: &[f64], which: u64, mag: f64) -> (Vec<f64>, &'static str) {
    let n = v.len();
    let vmax = norm_inf(v).max(1e-300);
    let w = which as usize;
    let (mut d, label): (Vec<f64>, &'static str) = match w {
        0 => (vec![0.0; n], "zero"),
        1 => (v.iter().map(|x| -x).collect(), "outward(-v)"),
        2 => (v.iter().map(|x| -3.0 * x).collect(), "outward(-3v)"),
        3 => (v.iter().map(|x| 0.5 * x).collect(), "inward(+v/2)"),
        4 => ((0..n).map(|i| if i % 2 == 0 { -vmax } else { 0.7 * vmax }).collect(), "dense-alternating"),
        5 => ((0..n).map(|i| -vmax * (0.2 + 0.1 * i as f64)).collect(), "dense-negative"),
        6 => {
            // exactly on the cone boundary: never leaves
            let g = match kind {
                Kind::NN(_) => {
                    let mut g = vec![0.0; n];
                    g[0] = 1.0;
                    g
                }
                Kind::SOC(_) => {
                    let mut g = vec![0.0; n];
                    g[0] = 1.0;
                    if n > 1 {
                        g[1] = 1.0;
                    }
                    g
                }
                Kind::PSD(k) => {
                    let mut m = Dense::zeros(*k, *k);
                    m.set(0, 0, 1.0);
                    mat_to_svec(&m)
                }
            };
            (g.iter().map(|x| x * vmax).collect(), "boundary-grazing")
        }
        7 => {
            // tangent-ish: leaves slowly
            let mut g = vec![0.0; n];
            if n > 1 {
                g[n - 1] = vmax;
            } else {
                g[0] = -vmax * 1e-3;
            }
            (g, "tangent")
        }
        8 | 9 => {
            // exactly on the boundary of the NEGATIVE cone (for a second-order cone y0 = -||y1|| exactly, so the
            // quadratic's leading coefficient vanishes): leaves through the apex side at a finite step
            let g = match kind {
                Kind::NN(_) => {
                    let mut g = vec![0.0; n];
                    g[n - 1] = -1.0;
                    g
                }
                Kind::SOC(_) => {
                    let mut g = vec![0.0; n];
                    if w == 8 || n < 3 {
                        g[0] = -1.0;
                        if n > 1 {
                            g[1] = 1.0;
                        }
                    } else {
                        g[0] = -5.0;
                        g[1] = 3.0;
                        g[2] = -4.0;
                    }
                    g
                }
                Kind::PSD(k) => {
                    let mut m = Dense::zeros(*k, *k);
                    m.set(k - 1, k - 1, -1.0);
                    if w == 9 && *k > 1 {
                        m.set(0, 0, -1.0);
                        m.set(0, k - 1, -1.0);
                        m.set(k - 1, 0, -1.0);
                    }
                    mat_to_svec(&m)
                }
            };
            (g.iter().map(|x| x * vmax).collect(), "minus-boundary-ray")
        }
        _ => {
            let k = (w - 10) / 2;
            let sgn = if (w - 10) % 2 == 0 { -1.0 } else { 1.0 };
            let mut g = vec![0.0; n];
            g[k] = sgn * 2.0 * vmax;
            (g, "basis")
        }
    };
    for x in d.iter_mut() {
        *x *= mag;
    }
    (d, label)
}

/// exact distance to the boundary along d, capped at amax, by bisection on an independent margin function
fn exact_step(margin: &dyn Fn(&[f64]) -> f64, v: &[f64], d: &[f64], amax: f64) -> f64 {
    let at = |a: f64| -> f64 {
        let p: Vec<f64> = v.iter().zip(d).map(|(x, y)| x + a * y).collect();
        margin(&p)
    };
    if at(amax) >= 0.0 {
        return amax;
    }
    let (mut lo, mut hi) = (0.0, amax);
    for _ in 0..200 {
        let mid = 0.5 * (lo + hi);
        if at(mid) >= 0.0 {
            lo = mid;
        } else {
            hi = mid;
        }
        if hi - lo <= 1e-15 * hi {
            break;
        }
    }
    lo
}

/// The judged answer comes from a fresh cone object; the same question is then asked again after the object
/// has answered a different one (reversed, longer directions). The object's scratch state must not leak:
/// both answers must be identical (a differential oracle that needs no expected value).
fn fresh_then_used<C: Cone<f64>>(c: &mut C, dz: &[f64], ds: &[f64], z: &[f64], s: &[f64], st: &DefaultSettings<f64>, amax: f64) -> Result<(f64, f64), Violation> {
    let first = c.step_length(dz, ds, z, s, st, amax);
    let odz: Vec<f64> = dz.iter().map(|v| -3.0 * v).collect();
    let ods: Vec<f64> = ds.iter().rev().map(|v| -0.5 * v).collect();
    let _ = c.step_length(&odz, &ods, z, s, st, 1.0);
    let second = c.step_length(dz, ds, z, s, st, amax);
    ensure!(
        first.0.to_bits() == second.0.to_bits() && first.1.to_bits() == second.1.to_bits(),
        "step-length-depends-on-earlier-calls",
        "fresh object: {:?}; same object after another call: {:?}",
        first,
        second
    );
    Ok(first)
}

/// common scale factors applied to point and direction together (exact powers of two would be invisible
/// to rounding; these are not)
pub const COMMON_SCALES: [f64; 3] = [1.0, 1e-18, 1e12];

pub struct SymSteps {
    pub kind: Kind,
}
impl SymSteps {
    fn npts(&self) -> u64 {
        (3 * DELTAS.len() * MAGS.len()) as u64
    }
    fn delta_of(&self, id: u64) -> f64 {
        let mut dg = Digits(id);
        let _ = dg.pick(&ALPHAMAX);
        let _ = dg.pick(&[1.0, 1e-3, 1e3]);
        let _ = dg.take(ndirs(self.kind.numel_pub()));
        let pid = dg.take(self.npts());
        let mut pd = Digits(pid);
        let _ = pd.take(3);
        *pd.pick(&DELTAS)
    }
    fn decode(&self, id: u64) -> (Vec<f64>, Vec<f64>, Vec<f64>, Vec<f64>, f64, String) {
        let mut dg = Digits(id);
        let amax = *dg.pick(&ALPHAMAX);
        let dmag = *dg.pick(&[1.0, 1e-3, 1e3]);
        let n = self.kind.numel_pub();
        let wd = dg.take(ndirs(n));
        let pid = dg.take(self.npts());
        let mut pd = Digits(pid);
        let dir = pd.take(3) as usize;
        let delta = *pd.pick(&DELTAS);
        let mag = *pd.pick(&MAGS);
        let z = interior(&self.kind, dir, delta, mag);
        let s = interior(&self.kind, (dir + 1) % 3, delta, mag);
        let (dz, label) = direction(&self.kind, &z, wd, dmag);
        let (ds, _) = direction(&self.kind, &s, (wd + 1) % ndirs(n), dmag);
        // cones are invariant under positive scaling: the whole configuration at a common scale
        let sc = *dg.pick(&COMMON_SCALES);
        let f = |v: Vec<f64>| -> Vec<f64> { v.into_iter().map(|x| x * sc).collect() };
        (f(z), f(s), f(dz), f(ds), amax, label.to_string())
    }
}

trait NumelPub {
    fn numel_pub(&self) -> usize;
}
impl NumelPub for Kind {
    fn numel_pub(&self) -> usize {
        match self {
            Kind::NN(d) | Kind::SOC(d) => *d,
            Kind::PSD(n) => n * (n + 1) / 2,
        }
    }
}

impl Space for SymSteps {
    fn name(&self) -> String {
        format!("sym-steps-{:?}", self.kind)
    }
    fn size(&self) -> u64 {
        ALPHAMAX.len() as u64 * 3 * ndirs(self.kind.numel_pub()) * self.npts() * COMMON_SCALES.len() as u64
    }
    fn describe(&self, id: u64) -> Value {
        let (z, s, dz, ds, amax, label) = self.decode(id);
        json!({"cone": format!("{:?}", self.kind), "z": z, "s": s, "dz": dz, "ds": ds, "alpha_max": amax, "dz_kind": label})
    }
    fn bound(&self) -> Value {
        json!({"points": self.npts(), "directions": ndirs(self.kind.numel_pub()), "direction_magnitudes": [1.0,1e-3,1e3], "alpha_max": ALPHAMAX, "common_scale": COMMON_SCALES})
    }
    fn run(&self, id: u64, ctx: &mut Ctx) -> CaseResult {
        let (z, s, dz, ds, amax, _label) = self.decode(id);
        let st = DefaultSettings::<f64>::default();
        let cs = spec(&self.kind);
        let (az, as_) = match &self.kind {
            Kind::NN(d) => fresh_then_used(&mut NonnegativeCone::<f64>::new(*d), &dz, &ds, &z, &s, &st, amax)?,
            Kind::SOC(d) => fresh_then_used(&mut SecondOrderCone::<f64>::new(*d), &dz, &ds, &z, &s, &st, amax)?,
            Kind::PSD(k) => {
                let mut c = PSDTriangleCone::<f64>::new(*k);
                ensure!(c.update_scaling(&s, &z, 1.0, ScalingStrategy::PrimalDual), "update_scaling-fails-on-interior-point", "");
                fresh_then_used(&mut c, &dz, &ds, &z, &s, &st, amax)?
            }
        };
        ctx.transitions += 3;
        for (name, a, v, d, dual) in [("z", az, &z, &dz, true), ("s", as_, &s, &ds, false)] {
            ensure!(a.is_finite() && a >= 0.0, "step-negative-or-nonfinite", "{}: alpha = {:e}", name, a);
            ensure!(a <= amax, "step-exceeds-alpha-max", "{}: alpha {:e} > alpha_max {:e}", name, a, amax);
            let margin = |p: &[f64]| if dual { margin_dual(&cs, p) } else { margin_primal(&cs, p) };
            let p: Vec<f64> = v.iter().zip(d.iter()).map(|(x, y)| x + a * y).collect();
            let scale = norm2(v) + a * norm2(d);
            ensure!(margin(&p) >= -1e-9 * scale, "step-leaves-cone", "{}: v + alpha d has margin {:e} (alpha {:e}, scale {:e})", name, margin(&p), a, scale);
            // tightness: the exact distance to the boundary, or the maximum
            let exact = exact_step(&margin, v, d, amax);
            // the closed-form root loses digits like sqrt(eps/delta) for a point at relative distance delta
            // from the boundary (double-root cancellation); the error is always on the short (safe) side
            let tol = 1e-7 / self.delta_of(id).sqrt() * exact + 1e-13 * amax;
            ctx.measure_max("tightness relerr", if exact > 0.0 { (a - exact).abs() / exact } else { 0.0 });
            ensure!((a - exact).abs() <= tol, "step-not-tight", "{}: alpha {:e} but exact distance (capped) is {:e}; v={:?} d={:?}", name, a, exact, v, d);
            if exact < amax {
                ctx.nontrivial += 1;
            }
        }
        Ok(())
    }
}

// ----------------------------------------------------------------------
// nonsymmetric cones: backtracking
// ----------------------------------------------------------------------
#[derive(Clone, Debug)]
pub enum NKind {
    Exp,
    Pow(f64),
    GenPow(Vec<f64>, usize),
}
impl NKind {
    fn spec(&self) -> ConeSpec {
        match self {
            NKind::Exp => ConeSpec::Exp,
            NKind::Pow(a) => ConeSpec::Pow(*a),
            NKind::GenPow(a, d) => ConeSpec::GenPow(a.clone(), *d),
        }
    }
    fn n(&self) -> usize {
        self.spec().numel()
    }
}

/// interior points of K (primal) and K* (dual) for the nonsymmetric cones
pub fn nonsym_point(k: &NKind, dual: bool, id: u64) -> Vec<f64> {
    let mut d = Digits(id);
    let mag = *d.pick(&[1.0, 1e-3, 1e3]);
    let theta: f64 = *d.pick(&[0.0, 0.5, -0.5, 0.99, -0.99, 1.0 - 1e-6]);
    let skew = *d.pick(&[1.0, 1e-2, 1e2]);
    match k {
        NKind::Exp => {
            // primal: z >= y e^{x/y}, y>0 ; dual: w >= -u e^{v/u - 1}, u<0 ; theta in [0,1) sets the slack
            let gap = 1.0 / (1.0 - theta.abs()).max(1e-6);
            let t = [-2.0, 0.0, 1.0][(id % 3) as usize];
            if !dual {
                let y = mag * skew;
                let x = y * t;
                vec![x, y, y * (x / y).exp() * (1.0 + 1.0 / gap)]
            } else {
                let u = -mag * skew;
                let v = u * t;
                vec![u, v, -u * (v / u - 1.0).exp() * (1.0 + 1.0 / gap)]
            }
        }
        NKind::Pow(a) => {
            let (x, y) = (mag, mag * skew);
            if !dual {
                vec![x, y, theta * x.powf(*a) * y.powf(1.0 - a)]
            } else {
                vec![x, y, theta * (x / a).powf(*a) * (y / (1.0 - a)).powf(1.0 - a)]
            }
        }
        NKind::GenPow(a, d2) => {
            let d1 = a.len();
            let xs: Vec<f64> = (0..d1).map(|i| mag * if i % 2 == 0 { 1.0 } else { skew }).collect();
            let bound: f64 = if !dual { (0..d1).map(|i| xs[i].powf(a[i])).product() } else { (0..d1).map(|i| (xs[i] / a[i]).powf(a[i])).product() };
            let mut v = xs;
            for j in 0..*d2 {
                v.push(theta * bound / (*d2 as f64).sqrt() * if j % 2 == 0 { 1.0 } else { -1.0 });
            }
            v
        }
    }
}
const NPTS: u64 = 3 * 6 * 3;

pub struct NonsymSteps {
    pub kind: NKind,
}
impl NonsymSteps {
    fn decode(&self, id: u64) -> (Vec<f64>, Vec<f64>, Vec<f64>, Vec<f64>, f64, f64, f64) {
        let mut dg = Digits(id);
        let amax = *dg.pick(&ALPHAMAX_N);
        let (step, amin) = *dg.pick(&[(0.8, 1e-4), (0.5, 1e-4), (0.8, 1e-8)]);
        let dmag = *dg.pick(&[1.0, 1e-3, 1e3]);
        let n = self.kind.n();
        let wd = dg.take(ndirs(n) + (1u64 << n));
        let pid = dg.take(NPTS);
        let z = nonsym_point(&self.kind, true, pid);
        let s = nonsym_point(&self.kind, false, (pid + 7) % NPTS);
        let fake = Kind::NN(n);
        // beyond the named directions: every sign pattern (+-1)^n scaled by the size of the point and by 4, so
        // that trial points of the line search land in every orthant (a feasibility predicate that is too
        // permissive in one orthant lets the search stop there)
        let signed = |v: &[f64], pat: u64| -> Vec<f64> {
            let vmax = v.iter().fold(0.0f64, |m, x| m.max(x.abs())).max(1e-300);
            (0..n).map(|i| if pat >> i & 1 == 1 { -4.0 * vmax * dmag } else { 4.0 * vmax * dmag }).collect()
        };
        let (dz, ds) = if wd < ndirs(n) {
            (direction(&fake, &z, wd, dmag).0, direction(&fake, &s, (wd + 3) % ndirs(n), dmag).0)
        } else {
            let pat = wd - ndirs(n);
            (signed(&z, pat), signed(&s, (pat + 3) % (1u64 << n)))
        };
        let sc = *dg.pick(&COMMON_SCALES);
        let f = |v: Vec<f64>| -> Vec<f64> { v.into_iter().map(|x| x * sc).collect() };
        (f(z), f(s), f(dz), f(ds), amax, step, amin)
    }
}
impl Space for NonsymSteps {
    fn name(&self) -> String {
        format!("nonsym-steps-{:?}", self.kind)
    }
    fn size(&self) -> u64 {
        ALPHAMAX_N.len() as u64 * 3 * 3 * (ndirs(self.kind.n()) + (1u64 << self.kind.n())) * NPTS * COMMON_SCALES.len() as u64
    }
    fn describe(&self, id: u64) -> Value {
        let (z, s, dz, ds, amax, step, amin) = self.decode(id);
        json!({"cone": format!("{:?}", self.kind), "z": z, "s": s, "dz": dz, "ds": ds, "alpha_max": amax, "backtrack_step": step, "alpha_min": amin})
    }
    fn bound(&self) -> Value {
        json!({"points": NPTS, "directions": ndirs(self.kind.n()), "alpha_max": ALPHAMAX_N, "backtracking(step,alpha_min)": [[0.8,1e-4],[0.5,1e-4],[0.8,1e-8]]})
    }
    fn run(&self, id: u64, ctx: &mut Ctx) -> CaseResult {
        let (z, s, dz, ds, amax, step, amin) = self.decode(id);
        let cs = self.kind.spec();
        // the lattice points must be interior by the independent predicates (sanity of the generator)
        if !(margin_dual(&cs, &z) > 0.0 && margin_primal(&cs, &s) > 0.0) {
            ctx.outcome("lattice-point-not-interior(skipped)");
            return Ok(());
        }
        let mut st = DefaultSettings::<f64>::default();
        st.linesearch_backtrack_step = step;
        st.min_terminate_step_length = amin;
        let (az, as_) = match &self.kind {
            NKind::Exp => fresh_then_used(&mut ExponentialCone::<f64>::new(), &dz, &ds, &z, &s, &st, amax)?,
            NKind::Pow(a) => fresh_then_used(&mut PowerCone::<f64>::new(*a), &dz, &ds, &z, &s, &st, amax)?,
            NKind::GenPow(a, d) => fresh_then_used(&mut GenPowerCone::<f64>::new(a.clone(), *d), &dz, &ds, &z, &s, &st, amax)?,
        };
        ctx.transitions += 3;
        for (name, a, v, d, dual) in [("z", az, &z, &dz, true), ("s", as_, &s, &ds, false)] {
            ensure!(a.is_finite() && a >= 0.0, "step-negative-or-nonfinite", "{}: alpha = {:e}", name, a);
            ensure!(a <= amax, "step-exceeds-alpha-max", "{}: alpha {:e} > {:e}", name, a, amax);
            let margin = |t: f64| -> f64 {
                let p: Vec<f64> = v.iter().zip(d.iter()).map(|(x, y)| x + t * y).collect();
                let m = if dual { margin_dual(&cs, &p) } else { margin_primal(&cs, &p) };
                m / (norm2(v) + t * norm2(d) + 1e-300)
            };
            ensure!(margin(a) >= -1e-10, "step-leaves-cone", "{}: relative margin {:e} at alpha {:e}", name, margin(a), a);
            // alpha must be one of the trial values alpha_max * step^k, or 0
            if a > 0.0 {
                let k = ((a / amax).ln() / step.ln()).round();
                ensure!(k >= 0.0 && (amax * step.powf(k) - a).abs() <= 1e-12 * a, "step-not-a-backtracking-trial", "{}: alpha {:e} is not alpha_max*step^k", name, a);
                ensure!(k == 0.0 || a >= amin * (1.0 - 1e-12), "step-below-alpha-min-but-nonzero", "{}: {:e} < {:e}", name, a, amin);
                if k >= 1.0 {
                    // not needlessly short: the previous trial must have failed
                    let prev = amax * step.powf(k - 1.0);
                    ensure!(margin(prev) <= 1e-10, "step-needlessly-short", "{}: alpha {:e} accepted although the previous trial {:e} is inside (relative margin {:e})", name, a, prev, margin(prev));
                    ctx.nontrivial += 1;
                }
            } else {
                // every admissible trial must have failed: alpha_max itself (always examined, also when it lies
                // below the minimum step), then alpha_max*step^k for as long as that is at least alpha_min
                let mut t = amax;
                loop {
                    ensure!(margin(t) <= 1e-10, "step-zero-although-a-trial-is-inside", "{}: trial {:e} has relative margin {:e} (alpha_max {:e}, alpha_min {:e})", name, t, margin(t), amax, amin);
                    t *= step;
                    if t < amin {
                        break;
                    }
                }
                ctx.outcome("zero-step");
            }
        }
        Ok(())
    }
}

// ----------------------------------------------------------------------
// margins, unit shifts and the shift to the interior used for initialisation
// ----------------------------------------------------------------------
pub struct Shifts {
    pub kind: Kind,
}
impl Shifts {
    fn vecs(&self, id: u64) -> (Vec<f64>, Vec<f64>) {
        // arbitrary (mostly exterior) vectors
        let n = self.kind.numel_pub();
        let mut d = Digits(id);
        let mag = *d.pick(&[1.0, 1e-6, 1e6, 0.0, 1e12, 1e17, 4e16]);
        let pat = d.take(8);
        let mk = |shift: usize| -> Vec<f64> {
            if pat >= 5 {
                // badly scaled: one entry of size `mag` (negative / positive / negative in the last place)
                // among entries of ordinary size
                return (0..n)
                    .map(|i| {
                        let big = match pat {
                            5 => i == 0,
                            6 => i == 0,
                            _ => i == n - 1,
                        };
                        if big {
                            if pat == 6 { mag } else { -mag }
                        } else {
                            (((i + shift) % 3) as f64 + 1.0) * if pat == 6 { -1.0 } else { 1.0 }
                        }
                    })
                    .collect();
            }
            (0..n)
                .map(|i| {
                    mag * match pat {
                        0 => -1.0 - i as f64,
                        1 => {
                            if (i + shift) % 2 == 0 {
                                3.0
                            } else {
                                -2.0
                            }
                        }
                        2 => 0.0,
                        3 => 1e-9 * (i as f64 + 1.0),
                        _ => ((i * 7 + shift * 3) % 5) as f64 - 2.0,
                    }
                })
                .collect()
        };
        (mk(0), mk(1))
    }
}
impl Space for Shifts {
    fn name(&self) -> String {
        format!("shift-to-interior-{:?}", self.kind)
    }
    fn size(&self) -> u64 {
        7 * 8
    }
    fn describe(&self, id: u64) -> Value {
        let (s, z) = self.vecs(id);
        json!({"cone": format!("{:?}", self.kind), "s": s, "z": z})
    }
    fn run(&self, id: u64, ctx: &mut Ctx) -> CaseResult {
        let (s, z) = self.vecs(id);
        let cs = spec(&self.kind);
        let n = s.len();
        // margins() agrees with the independent margin
        let api = vec![cs.to_api()];
        let mut cones = CompositeCone::<f64>::new(&api);
        let mut zz = z.clone();
        let (alpha, beta) = cones.margins(&mut zz, PrimalOrDualCone::DualCone);
        let want = margin_dual(&cs, &z);
        let scale = norm2(&z) + 1e-300;
        ensure!((alpha - want).abs() <= 1e-9 * scale + 1e-300, "margins-minimum-margin", "got {:e} want {:e} for {:?}", alpha, want, z);
        ensure!(beta >= 0.0 && beta >= alpha.max(0.0) * (1.0 - 1e-12), "margins-positive-sum", "alpha {:e} beta {:e}", alpha, beta);
        // scaled_unit_shift moves the margin by exactly the shift
        let mut z2 = z.clone();
        cones.scaled_unit_shift(&mut z2, 2.5, PrimalOrDualCone::DualCone);
        let after = margin_dual(&cs, &z2);
        ensure!((after - (want + 2.5)).abs() <= 1e-9 * (scale + 2.5), "scaled_unit_shift-margin", "margin {:e} -> {:e}, expected +2.5", want, after);
        // the full initialisation shift
        let mut vars = DefaultVariables::<f64>::new(1, n);
        vars.s.copy_from_slice(&s);
        vars.z.copy_from_slice(&z);
        vars.symmetric_initialization(&mut cones);
        let (ms, mz) = (margin_primal(&cs, &vars.s), margin_dual(&cs, &vars.z));
        ensure!(ms > 0.0 && mz > 0.0, "shift-to-interior-not-interior", "after shifting: margins s {:e} z {:e}; s={:?} z={:?}", ms, mz, vars.s, vars.z);
        ensure!(vars.τ == 1.0 && vars.κ == 1.0, "initialisation-tau-kappa", "{} {}", vars.τ, vars.κ);
        ctx.transitions += 3;
        ctx.nontrivial += 1;
        Ok(())
    }
}

// ----------------------------------------------------------------------
// composite cone: safe for every member, capped, and within one backtracking factor of a blocking member
// ----------------------------------------------------------------------
pub struct Composite {
    pub lists: Vec<Vec<ConeSpec>>,
}
impl Composite {
    fn decode(&self, id: u64) -> (Vec<ConeSpec>, Vec<f64>, Vec<f64>, Vec<f64>, Vec<f64>, f64, f64) {
        let mut d = Digits(id);
        let l = d.pick(&self.lists).clone();
        let amax = *d.pick(&[1.0, 0.5]);
        let msf = *d.pick(&[0.99, 0.5, 0.999]);
        let wd = d.take(6);
        let scalez = *d.pick(&[1.0, 0.1, 10.0]);
        let (mut z, mut s, mut dz, mut ds) = (vec![], vec![], vec![], vec![]);
        for (ci, c) in l.iter().enumerate() {
            let pz = c.interior_point(ci % 2);
            let ps = c.interior_point((ci + 1) % 2);
            let n = pz.len();
            let fake = Kind::NN(n.max(1));
            if n > 0 {
                let (a, _) = direction(&fake, &pz, (wd + ci as u64) % ndirs(n), scalez);
                let (b, _) = direction(&fake, &ps, (wd + 2 + ci as u64) % ndirs(n), 1.0);
                dz.extend(a);
                ds.extend(b);
            }
            z.extend(pz);
            s.extend(ps);
        }
        (l, z, s, dz, ds, amax, msf)
    }
}
impl Space for Composite {
    fn name(&self) -> String {
        "composite-step-ordering".into()
    }
    fn size(&self) -> u64 {
        self.lists.len() as u64 * 2 * 3 * 6 * 3
    }
    fn describe(&self, id: u64) -> Value {
        let (l, z, s, dz, ds, amax, msf) = self.decode(id);
        json!({"cones": l.iter().map(|c| c.tag()).collect::<Vec<_>>(), "z": z, "s": s, "dz": dz, "ds": ds, "alpha_max": amax, "max_step_fraction": msf})
    }
    fn run(&self, id: u64, ctx: &mut Ctx) -> CaseResult {
        let (l, z, s, dz, ds, amax, msf) = self.decode(id);
        let api: Vec<_> = l.iter().map(|c| c.to_api()).collect();
        let mut cones = CompositeCone::<f64>::new(&api);
        let mut st = DefaultSettings::<f64>::default();
        st.max_step_fraction = msf;
        // PSD members need a scaling point
        if !cones.update_scaling(&s, &z, 1.0, if cones.allows_primal_dual_scaling() { ScalingStrategy::PrimalDual } else { ScalingStrategy::Dual }) {
            ctx.outcome("scaling-failed(skipped)");
            return Ok(());
        }
        let (az, as_) = cones.step_length(&dz, &ds, &z, &s, &st, amax);
        ctx.transitions += 1;
        ensure!(az == as_, "composite-returns-different-steps", "{} {}", az, as_);
        let a = az;
        ensure!(a >= 0.0 && a <= amax, "step-exceeds-alpha-max", "{:e} vs {:e}", a, amax);
        let any_nonsym = l.iter().any(|c| !c.is_symmetric());
        if any_nonsym {
            ensure!(a <= msf, "composite-exceeds-max-step-fraction", "{:e} > {:e}", a, msf);
        }
        // every member stays inside at alpha ...
        let bt = st.linesearch_backtrack_step;
        let mut off = 0;
        let rel = |c: &ConeSpec, v: &[f64], d: &[f64], t: f64, dual: bool| -> f64 {
            let p: Vec<f64> = v.iter().zip(d.iter()).map(|(x, y)| x + t * y).collect();
            let m = if dual { margin_dual(c, &p) } else { margin_primal(c, &p) };
            m / (norm2(v) + t * norm2(d) + 1e-300)
        };
        // ... and the step is not needlessly short: one backtracking factor further (capped) something must block
        let cap = if any_nonsym { amax.min(msf) } else { amax };
        // (the line search of a nonsymmetric member starts from alpha_max itself, not from the max_step_fraction
        // cap, so "one factor further" is bounded by alpha_max: a member that blocks exactly at alpha_max
        // legitimately yields backtrack * alpha_max)
        let further = (a / bt).min(amax);
        let mut blocked = a >= cap * (1.0 - 1e-12);
        let mut blocked_sym_exact = false;
        for c in &l {
            let k = c.numel();
            let rng = off..off + k;
            off += k;
            if k == 0 || matches!(c, ConeSpec::Zero(_)) {
                continue;
            }
            for (v, d, dual) in [(&z[rng.clone()], &dz[rng.clone()], true), (&s[rng.clone()], &ds[rng.clone()], false)] {
                ensure!(rel(c, v, d, a, dual) >= -1e-9, "step-leaves-cone", "member {} leaves its cone at alpha {:e} (relative margin {:e})", c.tag(), a, rel(c, v, d, a, dual));
                if rel(c, v, d, further, dual) <= 1e-9 {
                    blocked = true;
                }
                if c.is_symmetric() {
                    let margin = |p: &[f64]| if dual { margin_dual(c, p) } else { margin_primal(c, p) };
                    let ex = exact_step(&margin, v, d, cap);
                    if (ex - a).abs() <= 1e-5 * ex {
                        blocked_sym_exact = true;
                    }
                }
            }
        }
        ensure!(
            blocked || blocked_sym_exact,
            "composite-step-needlessly-short",
            "alpha {:e}: neither the cap {:e} nor any member cone blocks a step of {:e}",
            a,
            cap,
            further
        );
        ctx.nontrivial += 1;
        Ok(())
    }
}

pub const ASSUMPTIONS: &[&str] = &[
    "the exact distance to the boundary is found by bisection on the independent textbook margin (Jacobi eigenvalues for PSD); agreement is demanded to 1e-7/sqrt(delta) relative for a point at relative boundary distance delta (the closed-form root loses digits like sqrt(eps/delta): observed 5e-7 at delta=1e-4 and 5e-5 at delta=1e-8)",
    "closure membership after the step carries a 1e-9 (symmetric) / 1e-10 relative (nonsymmetric) rounding margin; backtracking tightness treats a previous trial whose relative margin is below 1e-10 as on the boundary",
    "PSD step lengths need a scaling point: update_scaling(s,z) is called first, as the solver does",
];

pub fn spaces(tier: &str, _seed: u64) -> Vec<Box<dyn Space>> {
    let thorough = tier == "thorough";
    let mut v: Vec<Box<dyn Space>> = vec![];
    let mut kinds = vec![Kind::NN(1), Kind::NN(3), Kind::SOC(2), Kind::SOC(3), Kind::SOC(5), Kind::PSD(1), Kind::PSD(2), Kind::PSD(3)];
    if thorough {
        kinds.extend([Kind::SOC(4), Kind::SOC(9), Kind::NN(6), Kind::PSD(4)]);
    }
    for k in &kinds {
        v.push(Box::new(SymSteps { kind: k.clone() }));
        v.push(Box::new(Shifts { kind: k.clone() }));
    }
    let mut nk = vec![NKind::Exp, NKind::Pow(0.5), NKind::Pow(0.1), NKind::GenPow(vec![0.5, 0.5], 1), NKind::GenPow(vec![0.2, 0.3, 0.5], 2)];
    if thorough {
        nk.extend([NKind::Pow(0.9), NKind::Pow(1e-3), NKind::GenPow(vec![0.1, 0.9], 3)]);
    }
    for k in nk {
        v.push(Box::new(NonsymSteps { kind: k }));
    }
    use ConeSpec::*;
    v.push(Box::new(Composite {
        lists: vec![
            vec![NN(2), Exp],
            vec![Exp, NN(2)],
            vec![SOC(3), Pow(0.5), NN(1)],
            vec![Zero(2), SOC(3)],
            vec![PSD(2), Exp, SOC(2)],
            vec![GenPow(vec![0.5, 0.5], 1), NN(1), Exp],
            vec![NN(3)],
            vec![Pow(0.25), Exp],
        ],
    }));
    v
}
