//! C18 — chordal decomposition and its reversal preserve the problem and its solution.
//! (structure + reversal) every graph on <= 6 vertices x {standard, compact} x 3 merges x
//! cone contexts, on data with distinct prime entries and synthetic clique-consistent block vectors;
//! (end to end) planted sparse SDPs, all 24 combinations of compact x merge x complete_dual x presolve
//! against decomposition off.

use crate::dense::*;
use crate::problem::*;
use crate::solve::*;
use crate::util::*;
use clarabel::algebra::CscMatrix;
use clarabel::solver::*;
use clarabel::verif_hooks::VerifChordal;
use serde_json::{json, Value};
use std::collections::BTreeSet;

const MERGES: [&str; 3] = ["none", "parent_child", "clique_graph"];
const SQRT2: f64 = std::f64::consts::SQRT_2;

fn tri(i: usize, j: usize) -> usize {
    let (i, j) = if i <= j { (i, j) } else { (j, i) };
    j * (j + 1) / 2 + i
}
fn prime(k: usize) -> f64 {
    // distinct "prime-like" identifiers: 3, 5, 7, ... (odd numbers > 1 never equal +-1)
    (2 * k + 3) as f64
}

#[derive(Clone, Debug)]
struct Ctxt {
    before: Vec<ConeSpec>,
    after: Vec<ConeSpec>,
    two_psd: bool,
}
fn contexts() -> Vec<Ctxt> {
    use ConeSpec::*;
    vec![
        Ctxt { before: vec![], after: vec![], two_psd: false },
        Ctxt { before: vec![NN(2)], after: vec![], two_psd: false },
        Ctxt { before: vec![], after: vec![SOC(3)], two_psd: false },
        Ctxt { before: vec![Zero(1)], after: vec![NN(1)], two_psd: true },
    ]
}

pub struct Structure {
    pub d: usize, // vertices of the PSD pattern
}
impl Structure {
    fn ne(&self) -> usize {
        self.d * (self.d - 1) / 2
    }
    fn decode(&self, id: u64) -> (u64, usize, bool, Ctxt) {
        let mut dg = Digits(id);
        let merge = dg.take(3) as usize;
        let compact = dg.take(2) == 1;
        let cx = dg.pick(&contexts()).clone();
        let bits = dg.take(1 << self.ne());
        (bits, merge, compact, cx)
    }
    fn edge(&self, bits: u64, i: usize, j: usize) -> bool {
        let (i, j) = if i < j { (i, j) } else { (j, i) };
        i == j || bits >> (j * (j - 1) / 2 + i) & 1 == 1
    }
}

struct Built {
    n: usize,
    a: Dense,
    b: Vec<f64>,
    cones: Vec<ConeSpec>,
    psd_ranges: Vec<(usize, usize)>, // (row start, dim) of each PSD cone
}

impl Structure {
    fn build(&self, bits: u64, cx: &Ctxt) -> Built {
        let d = self.d;
        let n = 2;
        let mut cones = cx.before.clone();
        let mut psd_ranges = vec![];
        let mut rows = cones_numel(&cones);
        cones.push(ConeSpec::PSD(d));
        psd_ranges.push((rows, d));
        rows += d * (d + 1) / 2;
        if cx.two_psd {
            cones.push(ConeSpec::PSD(d));
            psd_ranges.push((rows, d));
            rows += d * (d + 1) / 2;
        }
        cones.extend(cx.after.clone());
        let m = cones_numel(&cones);
        let mut a = Dense::zeros(m, n);
        let mut b = vec![0.0; m];
        let mut k = 0;
        let mut in_psd = vec![false; m];
        for (pi, &(r0, dd)) in psd_ranges.iter().enumerate() {
            for j in 0..dd {
                for i in 0..=j {
                    in_psd[r0 + tri(i, j)] = true;
                    // the second PSD cone uses the complementary-ish pattern rotated by one vertex
                    let (ii, jj) = if pi == 0 { (i, j) } else { ((i + 1) % dd, (j + 1) % dd) };
                    if self.edge(bits, ii, jj) {
                        a.set(r0 + tri(i, j), (i + j) % n, prime(k));
                        k += 1;
                        b[r0 + tri(i, j)] = prime(k);
                        k += 1;
                    }
                }
            }
        }
        for r in 0..m {
            if !in_psd[r] {
                a.set(r, r % n, prime(k));
                k += 1;
                a.set(r, (r + 1) % n, prime(k));
                k += 1;
                b[r] = prime(k);
                k += 1;
            }
        }
        let _ = rows;
        Built { n, a, b, cones, psd_ranges }
    }
}

fn settings_for(compact: bool, merge: usize, complete_dual: bool) -> DefaultSettings<f64> {
    let mut st = DefaultSettings::<f64>::default();
    st.verbose = false;
    st.chordal_decomposition_enable = true;
    st.chordal_decomposition_compact = compact;
    st.chordal_decomposition_merge_method = MERGES[merge].to_string();
    st.chordal_decomposition_complete_dual = complete_dual;
    st
}

fn nvars_api(c: &SupportedConeT<f64>) -> usize {
    match c {
        ZeroConeT(k) | NonnegativeConeT(k) | SecondOrderConeT(k) => *k,
        ExponentialConeT() | PowerConeT(_) => 3,
        GenPowerConeT(a, d) => a.len() + d,
        PSDTriangleConeT(k) => k * (k + 1) / 2,
    }
}

impl Space for Structure {
    fn name(&self) -> String {
        format!("decomp-structure-{}-vertices", self.d)
    }
    fn size(&self) -> u64 {
        3 * 2 * contexts().len() as u64 * (1u64 << self.ne())
    }
    fn describe(&self, id: u64) -> Value {
        let (bits, merge, compact, cx) = self.decode(id);
        let mut edges = vec![];
        for j in 0..self.d {
            for i in 0..j {
                if self.edge(bits, i, j) {
                    edges.push((i, j));
                }
            }
        }
        json!({"psd_dim": self.d, "pattern_edges": edges, "merge_method": MERGES[merge], "compact": compact,
               "cones_before": cx.before.iter().map(|c| c.tag()).collect::<Vec<_>>(), "cones_after": cx.after.iter().map(|c| c.tag()).collect::<Vec<_>>(), "two_psd_cones": cx.two_psd})
    }
    fn bound(&self) -> Value {
        json!({"graphs": 1u64 << self.ne(), "forms": ["standard","compact"], "merge_methods": MERGES, "contexts": contexts().len()})
    }
    fn run(&self, id: u64, ctx: &mut Ctx) -> CaseResult {
        let (bits, merge, compact, cx) = self.decode(id);
        let bt = self.build(bits, &cx);
        let (n, m) = (bt.n, bt.b.len());
        let acsc = bt.a.to_csc();
        let api: Vec<_> = bt.cones.iter().map(|c| c.to_api()).collect();
        let pcsc = Dense::eye(n).to_csc();
        let q = vec![1.0; n];
        let st = settings_for(compact, merge, true);
        let made = guarded(|| VerifChordal::<f64>::new(&acsc, &bt.b, &api, &st)).map_err(|e| Violation::new(format!("chordal-analysis-panics:{}", super::sweep::panic_site(&e)), e))?;
        let Some(mut ch) = made else {
            ctx.outcome("not-decomposed");
            return Ok(());
        };
        let pats = ch.patterns();
        let aug = guarded(|| ch.augment(&pcsc, &q, &acsc, &bt.b, &st)).map_err(|e| Violation::new(format!("augment-panics:{}", super::sweep::panic_site(&e)), e))?;
        let (p2, q2, a2, b2, cones2) = aug;
        ctx.transitions += 2;
        // ---- dimensions and verbatim parts
        let nadd = a2.n - n;
        ensure!(p2.m == a2.n && p2.n == a2.n && q2.len() == a2.n && a2.m == b2.len(), "augmented-dimensions", "P {}x{} q {} A {}x{} b {}", p2.m, p2.n, q2.len(), a2.m, a2.n, b2.len());
        ensure!(a2.check_format().is_ok() && p2.check_format().is_ok(), "augmented-matrices-not-canonical", "");
        let rows2: usize = cones2.iter().map(nvars_api).sum();
        ensure!(rows2 == a2.m, "augmented-cones-do-not-match-rows", "{} vs {}", rows2, a2.m);
        ensure!(q2[..n] == q[..] && q2[n..].iter().all(|v| *v == 0.0), "augmented-q", "{:?}", q2);
        let p2d = csc_to_dense(&p2);
        for i in 0..a2.n {
            for j in 0..a2.n {
                let want = if i < n && j < n && i == j { 1.0 } else { 0.0 };
                ensure!(p2d.at(i, j) == want, "augmented-P", "({},{}) = {}", i, j, p2d.at(i, j));
            }
        }
        // ---- every original entry appears exactly once, everything else is +-1
        let mut vals: Vec<f64> = a2.nzval.iter().copied().filter(|v| v.abs() != 1.0).collect();
        vals.sort_by(|x, y| x.partial_cmp(y).unwrap());
        let mut want: Vec<f64> = acsc.nzval.clone();
        want.sort_by(|x, y| x.partial_cmp(y).unwrap());
        ensure!(vals == want, "original-A-entries-not-preserved-exactly-once", "augmented non-unit values {:?} vs original {:?}", vals, want);
        let mut bv: Vec<f64> = b2.iter().copied().filter(|v| *v != 0.0).collect();
        bv.sort_by(|x, y| x.partial_cmp(y).unwrap());
        let mut bw: Vec<f64> = bt.b.iter().copied().filter(|v| *v != 0.0).collect();
        bw.sort_by(|x, y| x.partial_cmp(y).unwrap());
        ensure!(bv == bw, "original-b-entries-not-preserved-exactly-once", "{:?} vs {:?}", bv, bw);
        // original columns keep their entries in the x-columns; added columns hold only +-1
        let a2d = csc_to_dense(&a2);
        for r in 0..a2.m {
            for c in n..a2.n {
                ensure!(a2d.at(r, c) == 0.0 || a2d.at(r, c).abs() == 1.0, "consistency-column-not-unit", "({},{})={}", r, c, a2d.at(r, c));
            }
        }
        // ---- cone list: non-PSD cones verbatim and in order, decomposed cones replaced by their clique blocks
        let mut expect: Vec<SupportedConeT<f64>> = vec![];
        if !compact {
            expect.push(ZeroConeT(m));
        }
        let mut pat_iter = pats.iter().peekable();
        for (ci, c) in api.iter().enumerate() {
            if pat_iter.peek().map(|p| p.orig_index == ci).unwrap_or(false) {
                let p = pat_iter.next().unwrap();
                // the standard form lists the clique blocks in post order, the compact form in reverse post order
                let order: Vec<usize> = if compact { (0..p.n_cliques).rev().collect() } else { (0..p.n_cliques).collect() };
                for k in order {
                    expect.push(PSDTriangleConeT(p.nblk[k]));
                }
            } else {
                expect.push(c.clone());
            }
        }
        ensure!(cones2 == expect, "augmented-cone-list", "{:?} vs expected {:?}", cones2, expect);
        // ---- reversal on synthetic, clique-consistent block vectors
        // a global positive definite "dual" matrix per PSD cone and PSD slack blocks per clique
        let zg = |dd: usize| -> Dense {
            let mut g = Dense::zeros(dd, dd);
            for i in 0..dd {
                for j in 0..dd {
                    g.set(i, j, if i == j { 3.0 + i as f64 } else { 1.0 / (1.0 + (i as f64 - j as f64).abs()) });
                }
            }
            g
        };
        let mut s2 = vec![];
        let mut z2 = vec![];
        if !compact {
            s2.extend(vec![0.0; m]);
            z2.extend((0..m).map(|i| 0.25 * i as f64));
        }
        let mut want_s = vec![0.0; m];
        let mut want_z_known: Vec<Option<f64>> = vec![None; m];
        let mut pat_iter = pats.iter().peekable();
        let mut row = 0;
        let mut psd_no = 0;
        let mut overlaps = 0usize;
        for (ci, c) in bt.cones.iter().enumerate() {
            let k = c.numel();
            if pat_iter.peek().map(|p| p.orig_index == ci).unwrap_or(false) {
                let p = pat_iter.next().unwrap();
                let dd = match c {
                    ConeSpec::PSD(dd) => *dd,
                    _ => unreachable!(),
                };
                let g = zg(dd);
                let mut count = vec![0usize; k];
                let order: Vec<usize> = if compact { (0..p.n_cliques).rev().collect() } else { (0..p.n_cliques).collect() };
                for kq in order {
                    let cidx = p.snode_post[kq];
                    let mut verts: BTreeSet<usize> = BTreeSet::new();
                    for &v in p.snode[cidx].iter().chain(p.separators[cidx].iter()) {
                        verts.insert(p.ordering[v]);
                    }
                    let vs: Vec<usize> = verts.into_iter().collect();
                    // svec of the block: S_k = (kq+1) * (I + 0.5 ones), Z_k = G[vs,vs]
                    for (cj, &vj) in vs.iter().enumerate() {
                        for (cidx2, &vi) in vs.iter().enumerate().take(cj + 1) {
                            let diag = cidx2 == cj;
                            let sval = (kq as f64 + 1.0) * if diag { 1.5 } else { 0.5 * SQRT2 };
                            let zval = g.at(vi, vj) * if diag { 1.0 } else { SQRT2 };
                            s2.push(sval);
                            z2.push(zval);
                            want_s[row + tri(vi, vj)] += sval;
                            want_z_known[row + tri(vi, vj)] = Some(zval);
                            count[tri(vi, vj)] += 1;
                        }
                    }
                }
                overlaps += count.iter().filter(|c| **c > 1).count();
                psd_no += 1;
            } else {
                for t in 0..k {
                    let (sv, zv) = (10.0 + (row + t) as f64, -3.0 - (row + t) as f64);
                    s2.push(sv);
                    z2.push(zv);
                    want_s[row + t] = sv;
                    want_z_known[row + t] = Some(zv);
                }
                if matches!(c, ConeSpec::PSD(_)) {
                    psd_no += 1;
                }
            }
            row += k;
        }
        let _ = psd_no;
        ensure!(s2.len() == a2.m, "machinery-synthetic-vector-length", "{} vs {}", s2.len(), a2.m);
        let x2: Vec<f64> = (0..a2.n).map(|j| 1.0 + j as f64).collect();
        for complete_dual in [false, true] {
            let st2 = settings_for(compact, merge, complete_dual);
            let (x, s, z) = guarded(|| ch.reverse(&x2, &s2, &z2, &cones2, &st2)).map_err(|e| Violation::new(format!("reverse-panics:{}", super::sweep::panic_site(&e)), e))?;
            ctx.transitions += 1;
            ensure!(x.len() == n && s.len() == m && z.len() == m, "reversed-vector-lengths", "{} {} {}", x.len(), s.len(), z.len());
            ensure!(x[..] == x2[..n], "reversed-x", "{:?}", x);
            for r in 0..m {
                ensure!((s[r] - want_s[r]).abs() <= 1e-12 * want_s[r].abs().max(1.0), "reversed-slack-is-not-sum-of-clique-blocks", "row {} s={} want {}", r, s[r], want_s[r]);
                if let Some(zv) = want_z_known[r] {
                    ensure!((z[r] - zv).abs() <= 1e-9 * zv.abs().max(1.0), "reversed-dual-disagrees-with-clique-block", "row {} z={} block value {} (complete_dual={})", r, z[r], zv, complete_dual);
                }
            }
            if complete_dual {
                for &(r0, dd) in &bt.psd_ranges {
                    let zm = svec_to_mat(&z[r0..r0 + dd * (dd + 1) / 2], dd);
                    let ev = sym_eigvals(&zm);
                    ensure!(ev[0] >= -1e-9 * ev[dd - 1].abs().max(1.0), "completed-dual-not-psd", "eigenvalues {:?}", ev);
                }
            }
        }
        ctx.outcome(&format!("decomposed-overlap-entries-{}", overlaps.min(9)));
        ctx.nontrivial += 1;
        Ok(())
    }
}

// ----------------------------------------------------------------------
// end to end: planted sparse SDPs
// ----------------------------------------------------------------------
pub struct EndToEnd {
    pub dims: Vec<usize>,
}
const PATTERNS: [&str; 5] = ["path", "arrow", "two-blocks", "cycle", "banded2"];
fn pat_edge(name: &str, d: usize, i: usize, j: usize) -> bool {
    let (i, j) = (i.min(j), i.max(j));
    if i == j {
        return true;
    }
    match name {
        "path" => j - i == 1,
        "arrow" => j == d - 1,
        "two-blocks" => (i < d / 2 && j < d / 2) || (i >= d / 2 - 1 && j >= d / 2 - 1),
        "cycle" => j - i == 1 || (i == 0 && j == d - 1),
        _ => j - i <= 2,
    }
}

impl EndToEnd {
    fn decode(&self, id: u64) -> (usize, &'static str, usize, bool, bool, bool, usize, usize) {
        let mut dg = Digits(id);
        let merge = dg.take(3) as usize;
        let compact = dg.take(2) == 1;
        let complete = dg.take(2) == 1;
        let presolve = dg.take(2) == 1;
        let context = dg.take(3) as usize; // 0: PSD alone, 1: NN before (finite), 2: NN row with an infinite bound before
        let pat = *dg.pick(&PATTERNS);
        let d = *dg.pick(&self.dims);
        // 0: A's entries cover the whole pattern; 1: A touches only part of it (every second anti-diagonal),
        // so that some entries of the aggregate pattern are present in b alone
        let amode = dg.take(2) as usize;
        (d, pat, merge, compact, complete, presolve, context, amode)
    }
    fn problem(d: usize, pat: &str, context: usize, amode: usize) -> Prob {
        // planted: slack S* sparse PD inside the pattern, dual Z* = I, x* = (1,-1,0.5)
        let n = 3;
        let mut cones = vec![];
        let mut rows0 = 0;
        if context >= 1 {
            cones.push(ConeSpec::NN(2));
            rows0 = 2;
        }
        cones.push(ConeSpec::PSD(d));
        let tn = d * (d + 1) / 2;
        let m = rows0 + tn;
        let xs = [1.0, -1.0, 0.5];
        let mut a = Dense::zeros(m, n);
        // column c: a sparse symmetric matrix inside the pattern
        for c in 0..n {
            for j in 0..d {
                for i in 0..=j {
                    if pat_edge(pat, d, i, j) && (i + 2 * j + c) % 3 == 0 && (amode == 0 || (i + j) % 2 == 0) {
                        let v = 1.0 + ((i + j + c) % 4) as f64 * 0.5;
                        a.set(rows0 + tri(i, j), c, if i == j { v } else { v * SQRT2 * 0.5 });
                    }
                }
            }
        }
        let mut smat = Dense::zeros(d, d);
        for i in 0..d {
            for j in 0..d {
                if pat_edge(pat, d, i, j) {
                    smat.set(i, j, if i == j { 4.0 + i as f64 } else { 0.5 });
                }
            }
        }
        let sstar = mat_to_svec(&smat);
        let zstar = mat_to_svec(&Dense::eye(d));
        let mut b = vec![0.0; m];
        let ax = a.mulvec(&xs);
        let mut zfull = vec![0.0; m];
        for r in 0..tn {
            b[rows0 + r] = ax[rows0 + r] + sstar[r];
            zfull[rows0 + r] = zstar[r];
        }
        if context >= 1 {
            a.set(0, 0, 1.0);
            a.set(1, 1, -1.0);
            let ax = a.mulvec(&xs);
            b[0] = ax[0] + 1.0;
            b[1] = ax[1] + 2.0;
            zfull[0] = 1.0;
            zfull[1] = 0.5;
            if context == 2 {
                // an infinite bound: the presolver removes this row before the decomposition
                b[0] = 1e30;
                zfull[0] = 0.0;
            }
        }
        let p = Dense::eye(n);
        let atz = a.tmulvec(&zfull);
        let q: Vec<f64> = (0..n).map(|j| -xs[j] - atz[j]).collect();
        Prob { n, m, p, p_full: false, q, a, b, cones }
    }
}
impl Space for EndToEnd {
    fn name(&self) -> String {
        format!("end-to-end-dims{:?}", self.dims)
    }
    fn size(&self) -> u64 {
        3 * 2 * 2 * 2 * 3 * PATTERNS.len() as u64 * self.dims.len() as u64 * 2
    }
    fn describe(&self, id: u64) -> Value {
        let (d, pat, merge, compact, complete, presolve, context, amode) = self.decode(id);
        json!({"psd_dim": d, "pattern": pat, "merge_method": MERGES[merge], "compact": compact, "complete_dual": complete, "presolve_enable": presolve,
               "a_entries": (["whole pattern", "part of the pattern (rest in b alone)"][amode]), "context": (["PSD alone", "NN(2) before", "NN(2) before with an infinite bound"][context]), "problem": Self::problem(d, pat, context, amode).to_json()})
    }
    fn bound(&self) -> Value {
        json!({"dims": self.dims, "patterns": PATTERNS, "settings_combinations": 24, "contexts": 3, "a_coverage": 2})
    }
    fn run(&self, id: u64, ctx: &mut Ctx) -> CaseResult {
        let (d, pat, merge, compact, complete, presolve, context, amode) = self.decode(id);
        let p = Self::problem(d, pat, context, amode);
        let mut ss = SettingsSpec { presolve_enable: presolve, ..Default::default() };
        // decomposition off: the reference
        ss.chordal = false;
        let reference = run_solver(&p, &ss, false).map_err(|e| Violation::new("machinery-reference-panics", e))?;
        let mut st = ss.build();
        st.chordal_decomposition_enable = true;
        st.chordal_decomposition_compact = compact;
        st.chordal_decomposition_merge_method = MERGES[merge].to_string();
        st.chordal_decomposition_complete_dual = complete;
        let res = guarded(|| {
            let mut solver = p.build(st.clone());
            let decomposed = solver.data.m != reference.internal_m || solver.data.n != reference.internal_n;
            solver.solve();
            (extract(&solver, vec![]), decomposed)
        });
        let (r, decomposed) = match res {
            Ok(x) => x,
            Err(e) => {
                let site = super::sweep::panic_site(&e);
                let key = if context == 2 && presolve { format!("panic-with-presolve-reduction-before-decomposed-cone:{}", site) } else { format!("panic-with-decomposition:{}", site) };
                return Err(Violation::new(key, e));
            }
        };
        ctx.transitions += 2;
        ensure!(r.x.len() == p.n && r.s.len() == p.m && r.z.len() == p.m, "result-lengths-with-decomposition", "{} {} {}", r.x.len(), r.s.len(), r.z.len());
        if reference.status != SolverStatus::Solved {
            // (an un-presolved 1e30 bound capped at 1e20 makes the reference problem numerically hopeless)
            ctx.outcome("reference-inconclusive");
            return Ok(());
        }
        ensure!(r.status == reference.status, "verdict-differs-with-decomposition", "{:?} vs {:?}", r.status, reference.status);
        let tolo = 1e-6 * reference.obj_val.abs().max(1.0);
        ensure!((r.obj_val - reference.obj_val).abs() <= tolo, "objective-differs-with-decomposition", "{} vs {}", r.obj_val, reference.obj_val);
        // the returned point must satisfy the ORIGINAL problem's conditions, with every tolerance multiplied
        // by the explicit size-dependent factor (1 + number of overlapping entries) and nothing else relaxed
        let overlap_bound = (d * (d + 1) / 2) as f64;
        let mut loose = ss.clone();
        loose.tol_profile = 0;
        let factor = 1.0 + overlap_bound;
        let jr = judge_c01_scaled(&p, &loose, &r, 1e20, factor, complete);
        jr?;
        ctx.outcome(if decomposed { "decomposed-agrees" } else { "not-decomposed" });
        if decomposed {
            ctx.nontrivial += 1;
        }
        Ok(())
    }
}

/// C01 with all tolerances multiplied by `factor`; without dual completion the PSD membership of z is
/// only demanded when `check_dual_psd`
fn judge_c01_scaled(p: &Prob, ss: &SettingsSpec, r: &Run, bound: f64, factor: f64, check_dual_psd: bool) -> CaseResult {
    use crate::oracle::*;
    let st = ss.build();
    let skip = expected_dropped(&p.cones, &p.b, bound, ss.presolve_enable);
    let pc = cap_b(p, bound);
    let ev = kkt_eval(&pc, &r.x, &r.s, &r.z, &skip);
    ensure!(ev.res_primal < st.tol_feas * factor, "original-primal-residual-with-decomposition", "{:e} vs {:e} x {}", ev.res_primal, st.tol_feas, factor);
    ensure!(ev.res_dual < st.tol_feas * factor, "original-dual-residual-with-decomposition", "{:e} vs {:e} x {}", ev.res_dual, st.tol_feas, factor);
    ensure!(ev.gap_abs < st.tol_gap_abs * factor || ev.gap_rel < st.tol_gap_rel * factor, "original-gap-with-decomposition", "{:e} {:e}", ev.gap_abs, ev.gap_rel);
    let (ms, cs) = worst_margin(&p.cones, &r.s, false, &skip);
    ensure!(ms >= -1e-7 * factor, "original-slack-outside-cone-with-decomposition", "cone #{} margin {:e}", cs, ms);
    if check_dual_psd {
        let (mz, cz) = worst_margin(&p.cones, &r.z, true, &skip);
        ensure!(mz >= -1e-7 * factor, "original-dual-outside-cone-with-decomposition", "cone #{} margin {:e}", cz, mz);
    }
    Ok(())
}

pub const ASSUMPTIONS: &[&str] = &[
    "structure: original A and b entries are distinct odd integers > 1, so 'appears exactly once' is a multiset equality and every added entry must be +-1",
    "reversal: slack blocks S_k = (k+1)(I + ones/2) and dual blocks cut from one global positive definite matrix (hence consistent on overlaps); the reversed slack must equal the sum of blocks to 1e-12 and the dual must agree with every block to 1e-9 and be PSD (Jacobi) after completion",
    "end to end: tolerances of the original problem's conditions are multiplied by 1 + d(d+1)/2 (an upper bound on the number of overlapping entries) and nothing else is relaxed; without dual completion only the clique entries of z are defined, so PSD membership of z is only demanded with completion",
    "PSD cones, Cholesky, SVD and gemm on this path run on the harness's plain-Rust BLAS/LAPACK shims",
];

pub fn spaces(tier: &str, _seed: u64) -> Vec<Box<dyn Space>> {
    let thorough = tier == "thorough";
    let mut v: Vec<Box<dyn Space>> = vec![];
    v.push(Box::new(Structure { d: 4 }));
    v.push(Box::new(Structure { d: 5 }));
    v.push(Box::new(Structure { d: 6 }));
    v.push(Box::new(EndToEnd { dims: if thorough { vec![4, 5, 6, 7, 8, 10] } else { vec![4, 5, 6] } }));
    v
}
