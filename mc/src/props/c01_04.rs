//! C01-C04: verdict-conditional oracles over the shared input/configuration sweep.
use super::sweep::*;
use crate::util::*;

pub const ASSUMPTIONS: &[&str] = &[
    "threshold comparisons allow a relative slack of 1e-6 plus an absolute rounding allowance of 1e-13 x (magnitude of the summed terms): the solver evaluates the same quantities on equilibrated data",
    "cone membership of returned vectors is judged with margin -1e-9*max(1,||block||) by textbook definitions (Jacobi eigenvalues for PSD)",
    "the infinity bound is the default 1e20 throughout these sweeps; rows the oracle expects the presolver to drop are excluded from residuals as the property states",
    "PSD cones go through the harness's plain-Rust BLAS/LAPACK shims (self-checking)",
];

pub fn spaces_c01(tier: &str, _seed: u64) -> Vec<Box<dyn Space>> {
    sweep_spaces(Judge::C01, tier)
}
pub fn spaces_c02(tier: &str, _seed: u64) -> Vec<Box<dyn Space>> {
    sweep_spaces(Judge::C02, tier)
}
pub fn spaces_c03(tier: &str, _seed: u64) -> Vec<Box<dyn Space>> {
    let mut v = sweep_spaces(Judge::C03, tier);
    // "after any solve" includes solves that follow in-place data updates: the update histories
    // of C08 (whose closing solve is judged by the C03 oracle) are part of this property's space
    let maxd = if tier == "thorough" { 3 } else { 2 };
    for base in 0..2 {
        for depth in 1..=maxd {
            v.push(Box::new(super::c08::Hist { depth, base, equil: true, presolve_active: false }));
        }
    }
    // terminal statuses that need an injected fault (NumericalError, roll-backs, strategy switches)
    let (k, d) = if tier == "thorough" { (6, 3) } else { (4, 2) };
    v.push(Box::new(super::faults::Schedules::new(k, d, super::faults::FJudge::C03)));
    v
}
pub fn spaces_c04(tier: &str, _seed: u64) -> Vec<Box<dyn Space>> {
    let mut v = sweep_spaces(Judge::C04, tier);
    let thorough = tier == "thorough";
    let (k, d) = if thorough { (6, 3) } else { (4, 2) };
    v.push(Box::new(super::faults::Schedules::new(k, d, super::faults::FJudge::C04)));
    v.push(Box::new(super::faults::ClockJumps { kmax: if thorough { 12 } else { 6 } }));
    v
}
