//! C01-C04: verdict-conditional oracles over the shared input/configuration sweep.
use super::sweep::*;
use crate::problem::*;
use crate::solve::*;
use crate::util::*;
use serde_json::{json, Value};

/// C03, "Almost* only when the reduced tolerances are met": every iteration budget 0..=kmax (so that runs end
/// MaxIterations and pass through the reduced-tolerance test) x reduced-tolerance profiles in which the paired
/// tolerances differ x objective scales (gap_abs >> gap_rel), runs observed (kappa for the certificate tests)
pub struct AlmostPaths {
    pub src: Planted,
    pub kmax: u32,
}
const OBJ_SCALES: [f64; 2] = [1.0, 1e3];
impl AlmostPaths {
    fn decode(&self, id: u64) -> (Prob, SettingsSpec) {
        let mut d = Digits(id);
        let k = d.take(self.kmax as u64 + 1) as u32;
        let prof = d.take(6) as u8;
        let sc = *d.pick(&OBJ_SCALES);
        let (mut p, mut ss) = self.src.case_of(d.0);
        ss.max_iter = k;
        ss.reduced_profile = prof;
        for v in p.q.iter_mut() {
            *v *= sc;
        }
        for v in p.p.a.iter_mut() {
            *v *= sc;
        }
        (p, ss)
    }
}
impl Space for AlmostPaths {
    fn name(&self) -> String {
        format!("almost-paths-{}", self.src.name())
    }
    fn size(&self) -> u64 {
        self.src.size() * (self.kmax as u64 + 1) * 6 * OBJ_SCALES.len() as u64
    }
    fn describe(&self, id: u64) -> Value {
        let (p, ss) = self.decode(id);
        json!({"problem": p.to_json(), "settings": ss.to_json()})
    }
    fn bound(&self) -> Value {
        json!({"max_iter": format!("0..={}", self.kmax), "reduced_tolerance_profiles": 6, "objective_scales": OBJ_SCALES})
    }
    fn run(&self, id: u64, ctx: &mut Ctx) -> CaseResult {
        let (p, ss) = self.decode(id);
        let Ok(r) = run_solver(&p, &ss, true) else {
            ctx.outcome("panic(skipped: judged by C04)");
            return Ok(());
        };
        ctx.outcome(status_name(r.status));
        ctx.transitions += r.iterations as u64 + 1;
        if format!("{:?}", r.status).starts_with("Almost") {
            ctx.nontrivial += 1;
        }
        judge_c03(&p, &ss, &r, BOUND)
    }
}

pub const ASSUMPTIONS: &[&str] = &[
    "threshold comparisons allow a relative slack of 1e-6 plus an absolute rounding allowance of 1e-13 x (magnitude of the summed terms): the solver evaluates the same quantities on equilibrated data",
    "cone membership of returned vectors is judged with margin -1e-9*max(1,||block||) by textbook definitions (Jacobi eigenvalues for PSD)",
    "the infinity bound is the default 1e20 throughout these sweeps; rows the oracle expects the presolver to drop are excluded from residuals as the property states",
    "PSD cones go through the harness's plain-Rust BLAS/LAPACK shims (self-checking)",
];

/// C01, "duality gap below tol_gap_abs or tol_gap_rel": the two gap tolerances set far apart (one of them
/// unreachable) x objective scales {1, 1e3}, so that absolute and relative gap differ by orders of magnitude
pub struct GapTols {
    pub src: Planted,
}
impl GapTols {
    fn decode(&self, id: u64) -> (Prob, SettingsSpec) {
        let mut d = Digits(id);
        let prof = 5 + d.take(2) as u8;
        let sc = *d.pick(&OBJ_SCALES);
        let (mut p, mut ss) = self.src.case_of(d.0);
        ss.tol_profile = prof;
        for v in p.q.iter_mut() {
            *v *= sc;
        }
        for v in p.p.a.iter_mut() {
            *v *= sc;
        }
        (p, ss)
    }
}
impl Space for GapTols {
    fn name(&self) -> String {
        format!("gap-tolerances-{}", self.src.name())
    }
    fn size(&self) -> u64 {
        self.src.size() * 2 * OBJ_SCALES.len() as u64
    }
    fn describe(&self, id: u64) -> Value {
        let (p, ss) = self.decode(id);
        json!({"problem": p.to_json(), "settings": ss.to_json()})
    }
    fn bound(&self) -> Value {
        json!({"gap_tolerance_profiles": ["abs 1e-4 / rel 1e-14", "abs 1e-14 / rel 1e-4"], "objective_scales": OBJ_SCALES})
    }
    fn run(&self, id: u64, ctx: &mut Ctx) -> CaseResult {
        let (p, ss) = self.decode(id);
        apply_judge(Judge::C01, &p, &ss, ctx)
    }
}

pub fn spaces_c01(tier: &str, _seed: u64) -> Vec<Box<dyn Space>> {
    let mut v = sweep_spaces(Judge::C01, tier);
    {
        use ConeSpec::*;
        for (l, n) in [(vec![NN(3), SOC(3)], 3usize), (vec![Zero(1), NN(2), Exp], 3), (vec![SOC(5), NN(1)], 3)] {
            let xids: Vec<u64> = if tier == "thorough" { vec![0, 5, 13] } else { vec![5] };
            v.push(Box::new(GapTols { src: Planted::new(l, n, SettingsSpec::lattice(0), Judge::C01, 1, xids, "default") }));
        }
    }
    // "whenever a solve ends Solved" includes solves after in-place data updates: the update histories of
    // C08, whose closing solve is judged by the C01 oracle on the final data, belong to this property too
    let maxd = if tier == "thorough" { 3 } else { 2 };
    for base in 0..2 {
        for depth in 1..=maxd {
            v.push(Box::new(super::c08::Hist { depth, base, equil: true, presolve_active: false }));
        }
    }
    v
}
pub fn spaces_c02(tier: &str, _seed: u64) -> Vec<Box<dyn Space>> {
    let mut v = sweep_spaces(Judge::C02, tier);
    // "whenever a solve ends (Primal|Dual)Infeasible" includes re-solves on one solver object after data updates
    // that make the problem infeasible (the update histories of C08; the closing solve is judged by the C02 oracle)
    let maxd = if tier == "thorough" { 4 } else { 3 };
    for base in 0..4 {
        for depth in 1..=maxd {
            if depth == maxd && base != 2 {
                continue;
            }
            v.push(Box::new(super::c08::Hist { depth, base, equil: true, presolve_active: false }));
        }
    }
    v
}
pub fn spaces_c03(tier: &str, _seed: u64) -> Vec<Box<dyn Space>> {
    let mut v = sweep_spaces(Judge::C03, tier);
    // "after any solve" includes solves that follow in-place data updates: the update histories
    // of C08 (whose closing solve is judged by the C03 oracle) are part of this property's space
    let maxd = if tier == "thorough" { 3 } else { 2 };
    for base in 0..4 {
        for depth in 1..=(if base == 2 { maxd + 1 } else { maxd }) {
            v.push(Box::new(super::c08::Hist { depth, base, equil: true, presolve_active: false }));
        }
    }
    {
        use ConeSpec::*;
        let lists: Vec<(Vec<ConeSpec>, usize)> = vec![(vec![NN(3), SOC(3)], 3), (vec![Zero(1), NN(2), Exp], 3), (vec![SOC(5), NN(1)], 3), (vec![PSD(2), NN(2)], 2)];
        for (li, (l, n)) in lists.into_iter().enumerate() {
            if tier != "thorough" && li == 3 {
                continue; // PSD trajectories are slow on the plain-Rust LAPACK shims
            }
            let xids: Vec<u64> = if tier == "thorough" { vec![0, 5, 13] } else { vec![5] };
            v.push(Box::new(AlmostPaths { src: Planted::new(l, n, SettingsSpec::lattice(0), Judge::C03, 1, xids, "default"), kmax: if tier == "thorough" { 25 } else { 12 } }));
        }
    }
    // terminal statuses that need an injected fault (NumericalError, roll-backs, strategy switches)
    let (k, d) = if tier == "thorough" { (6, 3) } else { (4, 2) };
    v.push(Box::new(super::faults::Schedules::new(k, d, super::faults::FJudge::C03)));
    v
}
pub fn spaces_c04(tier: &str, _seed: u64) -> Vec<Box<dyn Space>> {
    let mut v = sweep_spaces(Judge::C04, tier);
    let thorough = tier == "thorough";
    let (k, d) = if thorough { (6, 3) } else { (4, 2) };
    v.push(Box::new(super::faults::Schedules::new(k, d, super::faults::FJudge::C04)));
    v.push(Box::new(super::faults::ClockJumps { kmax: if thorough { 12 } else { 6 } }));
    v.push(Box::new(super::faults::ClockResolves { resolves: if thorough { 5 } else { 2 } }));
    v
}
