//! C01-C04: verdict-conditional oracles over the shared input/configuration sweep.
use super::sweep::*;
use crate::util::*;

pub const ASSUMPTIONS: &[&str] = &[
    "threshold comparisons allow a relative slack of 1e-6 plus an absolute rounding allowance of 1e-13 x (magnitude of the summed terms): the solver evaluates the same quantities on equilibrated data",
    "cone membership of returned vectors is judged with margin -1e-9*max(1,||block||) by textbook definitions (Jacobi eigenvalues for PSD)",
    "the infinity bound is the default 1e20 throughout these sweeps; rows the oracle expects the presolver to drop are excluded from residuals as the property states",
    "PSD cones go through the harness's plain-Rust BLAS/LAPACK shims (self-checking)",
];

pub fn spaces_c01(tier: &str, _seed: u64) -> Vec<Box<dyn Space>> {
    sweep_spaces(Judge::C01, tier)
}
pub fn spaces_c02(tier: &str, _seed: u64) -> Vec<Box<dyn Space>> {
    sweep_spaces(Judge::C02, tier)
}
pub fn spaces_c03(tier: &str, _seed: u64) -> Vec<Box<dyn Space>> {
    sweep_spaces(Judge::C03, tier)
}
pub fn spaces_c04(tier: &str, _seed: u64) -> Vec<Box<dyn Space>> {
    sweep_spaces(Judge::C04, tier)
}
