//! The shared input/configuration sweeps behind C01-C04 (and reused by C05-C07, C09):
//!  F1 "all tiny programs" and F2 "planted + deviations", each crossed with a settings lattice.

use crate::dense::*;
use crate::problem::*;
use crate::solve::*;
use crate::util::*;
use clarabel::solver::SolverStatus;
use serde_json::{json, Value};

pub const BOUND: f64 = 1e20;

#[derive(Clone, Copy, Debug, PartialEq)]
pub enum Judge {
    C01,
    C02,
    C03,
    C04,
}

pub fn apply_judge(j: Judge, p: &Prob, ss: &SettingsSpec, ctx: &mut Ctx) -> CaseResult {
    let observe = j == Judge::C02;
    let res = run_solver(p, ss, observe);
    let r = match res {
        Ok(r) => r,
        Err(panic) => {
            ctx.outcome("PANIC");
            // a panic on a well-formed problem violates C04; the other properties only judge results
            if j == Judge::C04 {
                return Err(Violation::new(format!("panic-on-wellformed-input:{}", panic_site(&panic)), panic));
            } else {
                return Ok(());
            }
        }
    };
    ctx.outcome(status_name(r.status));
    ctx.transitions += r.iterations as u64 + 1;
    match j {
        Judge::C01 => {
            if r.status == SolverStatus::Solved {
                ctx.nontrivial += 1;
            }
            judge_c01(p, ss, &r, BOUND)
        }
        Judge::C02 => {
            if matches!(r.status, SolverStatus::PrimalInfeasible | SolverStatus::DualInfeasible) {
                ctx.nontrivial += 1;
            }
            judge_c02(p, ss, &r, BOUND)
        }
        Judge::C03 => {
            ctx.nontrivial += 1;
            judge_c03(p, ss, &r, BOUND)
        }
        Judge::C04 => {
            ctx.nontrivial += 1;
            ensure!(r.status != SolverStatus::Unsolved, "nonterminal-status", "{:?}", r.status);
            ensure!(r.iterations <= ss.max_iter, "iterations-exceed-max_iter", "{} > {}", r.iterations, ss.max_iter);
            ensure!(r.x.len() == p.n && r.z.len() == p.m && r.s.len() == p.m, "result-lengths", "");
            Ok(())
        }
    }
}

/// file:line part of a panic message, for stable violation keys
pub fn panic_site(msg: &str) -> String {
    msg.rsplit(" @ ").next().unwrap_or("?").replace("/repo/", "")
}

// ----------------------------------------------------------------------
// F1: all tiny programs over one cone list
// ----------------------------------------------------------------------
pub struct Tiny {
    pub cones: Vec<ConeSpec>,
    pub n: usize,
    pub settings: Vec<SettingsSpec>,
    pub judge: Judge,
    pub vals: Vec<f64>,
    pub label: String,
}

impl Tiny {
    pub fn new(cones: Vec<ConeSpec>, n: usize, settings: Vec<SettingsSpec>, judge: Judge, label: &str) -> Self {
        Self {
            cones,
            n,
            settings,
            judge,
            vals: vec![0.0, 1.0, -1.0],
            label: label.to_string(),
        }
    }
    fn m(&self) -> usize {
        cones_numel(&self.cones)
    }
    fn decode(&self, id: u64) -> (Prob, SettingsSpec) {
        let (n, m) = (self.n, self.m());
        let mut d = Digits(id);
        let ss = d.pick(&self.settings).clone();
        let pm = p_menu(n);
        let p = d.pick(&pm).clone();
        let p_full = d.take(2) == 1;
        let q: Vec<f64> = (0..n).map(|_| *d.pick(&self.vals)).collect();
        let b: Vec<f64> = (0..m).map(|_| *d.pick(&self.vals)).collect();
        let mut a = Dense::zeros(m, n);
        for k in 0..m * n {
            a.a[k] = *d.pick(&self.vals);
        }
        (
            Prob {
                n,
                m,
                p,
                p_full,
                q,
                a,
                b,
                cones: self.cones.clone(),
            },
            ss,
        )
    }
}

impl Tiny {
    pub fn case_of(&self, id: u64) -> (Prob, SettingsSpec) {
        self.decode(id)
    }
}

impl Space for Tiny {
    fn name(&self) -> String {
        format!(
            "tiny-{:?}-n{}-[{}]-{}",
            self.judge,
            self.n,
            self.cones.iter().map(|c| c.tag()).collect::<Vec<_>>().join(","),
            self.label
        )
    }
    fn size(&self) -> u64 {
        let (n, m) = (self.n as u32, self.m() as u32);
        let v = self.vals.len() as u64;
        self.settings.len() as u64 * p_menu(self.n).len() as u64 * 2 * v.pow(n) * v.pow(m) * v.pow(n * m)
    }
    fn describe(&self, id: u64) -> Value {
        let (p, ss) = self.decode(id);
        json!({"problem": p.to_json(), "settings": ss.to_json()})
    }
    fn bound(&self) -> Value {
        json!({"family":"F1 all tiny programs","n":self.n,"m":self.m(),"values":self.vals,"P_menu":p_menu(self.n).len(),"settings_points":self.settings.len()})
    }
    fn run(&self, id: u64, ctx: &mut Ctx) -> CaseResult {
        let (p, ss) = self.decode(id);
        apply_judge(self.judge, &p, &ss, ctx)
    }
    fn debug(&self, id: u64) -> String {
        let (p, ss, ..) = self.decode(id);
        match run_solver(&p, &ss, true) {
            Ok(r) => format!("{:#?}", r),
            Err(e) => format!("panic: {}", e),
        }
    }

}

// ----------------------------------------------------------------------
// F2: planted strictly feasible primal-dual pairs + data deviations
// ----------------------------------------------------------------------
#[derive(Clone, Debug, PartialEq)]
pub enum Dev {
    ZeroEntry(usize, usize),
    FlipEntry(usize, usize),
    ScaleRow(usize, f64),
    ScaleCol(usize, f64),
    DupRow(usize),
    ShiftB(usize, f64),
    SetQ(usize, f64),
    ZeroP,
    ZeroCol(usize),
}

pub fn a_pattern(m: usize, n: usize, which: usize) -> Dense {
    let mut a = Dense::zeros(m, n);
    for i in 0..m {
        for j in 0..n {
            let v = match which {
                0 => {
                    if j == i % n {
                        1.0
                    } else {
                        0.0
                    }
                }
                1 => {
                    if (i * j + i) % 2 == 0 {
                        1.0
                    } else {
                        -1.0
                    }
                }
                _ => ((i + 2 * j) % 3) as f64 - 1.0,
            };
            a.set(i, j, v);
        }
    }
    a
}

/// the planted instance: b = A x* + s*, q = -P x* - A' z*
pub fn planted(cones: &[ConeSpec], n: usize, xid: u64, s_which: usize, z_which: usize, a_which: usize, p: &Dense, p_full: bool) -> Prob {
    let m = cones_numel(cones);
    let xs = Digits(xid);
    let mut xs = xs;
    let x: Vec<f64> = (0..n).map(|_| [0.0, 1.0, -1.0][xs.take(3) as usize]).collect();
    let mut s = vec![];
    let mut z = vec![];
    for c in cones {
        s.extend(c.interior_point(s_which));
        z.extend(c.interior_point(z_which));
    }
    let a = a_pattern(m, n, a_which);
    let ax = a.mulvec(&x);
    let b: Vec<f64> = (0..m).map(|i| ax[i] + s[i]).collect();
    let px = p.mulvec(&x);
    let atz = a.tmulvec(&z);
    let q: Vec<f64> = (0..n).map(|j| -px[j] - atz[j]).collect();
    Prob {
        n,
        m,
        p: p.clone(),
        p_full,
        q,
        a,
        b,
        cones: cones.to_vec(),
    }
}

/// all single deviations applicable to a problem (deterministic order)
pub fn deviations(p: &Prob) -> Vec<Dev> {
    let mut v = vec![];
    for i in 0..p.m {
        for j in 0..p.n {
            if p.a.at(i, j) != 0.0 {
                v.push(Dev::ZeroEntry(i, j));
                v.push(Dev::FlipEntry(i, j));
            }
        }
    }
    for i in 0..p.m {
        v.push(Dev::ScaleRow(i, 1e6));
        v.push(Dev::ScaleRow(i, 1e-6));
        v.push(Dev::ShiftB(i, -10.0));
    }
    for j in 0..p.n {
        v.push(Dev::ScaleCol(j, 1e6));
        v.push(Dev::ScaleCol(j, 1e-6));
        v.push(Dev::SetQ(j, 10.0));
        v.push(Dev::SetQ(j, -10.0));
        v.push(Dev::ZeroCol(j));
    }
    // duplicate a row inside a zero/NN cone
    let mut off = 0;
    for c in &p.cones {
        let k = c.numel();
        if matches!(c, ConeSpec::NN(_) | ConeSpec::Zero(_)) {
            for i in 0..k.saturating_sub(1) {
                v.push(Dev::DupRow(off + i));
            }
        }
        off += k;
    }
    v.push(Dev::ZeroP);
    v
}

pub fn apply_dev(p: &mut Prob, d: &Dev) {
    match *d {
        Dev::ZeroEntry(i, j) => p.a.set(i, j, 0.0),
        Dev::FlipEntry(i, j) => {
            let v = p.a.at(i, j);
            p.a.set(i, j, -v)
        }
        Dev::ScaleRow(i, f) => {
            for j in 0..p.n {
                let v = p.a.at(i, j);
                p.a.set(i, j, v * f);
            }
            p.b[i] *= f;
        }
        Dev::ScaleCol(j, f) => {
            for i in 0..p.m {
                let v = p.a.at(i, j);
                p.a.set(i, j, v * f);
            }
        }
        Dev::DupRow(i) => {
            for j in 0..p.n {
                let v = p.a.at(i, j);
                p.a.set(i + 1, j, v);
            }
            p.b[i + 1] = p.b[i];
        }
        Dev::ShiftB(i, f) => p.b[i] += f,
        Dev::SetQ(j, f) => p.q[j] = f,
        Dev::ZeroP => p.p = Dense::zeros(p.n, p.n),
        Dev::ZeroCol(j) => {
            for i in 0..p.m {
                p.a.set(i, j, 0.0);
            }
        }
    }
}

pub struct Planted {
    pub cones: Vec<ConeSpec>,
    pub n: usize,
    pub settings: Vec<SettingsSpec>,
    pub judge: Judge,
    pub maxdev: usize, // 0, 1 or 2 data deviations
    pub xids: Vec<u64>,
    pub label: String,
    /// give the first row of every nonnegative(-like) cone an infinite right-hand side (1e30)
    pub inf_rows: bool,
    /// give the first row of every nonnegative(-like) cone a very loose but finite right-hand side (1e18: below
    /// the infinity bound, so the row is kept and the data span 18 orders of magnitude)
    pub loose_rows: bool,
    /// turn the first nonnegative row into `0'x <= -1e21`: a strongly infeasible problem (certificate e_i)
    /// whose offending row lies beyond "minus infinity" and must never be treated as vacuous
    pub minus_inf_row: bool,
    /// zero the tail rows (A and b) of every second-order cone: the constraint reads t >= ||0||, an LP row written
    /// as a cone; slack and direction of that block are always collinear (steps point exactly at the apex)
    pub zero_tail_soc: bool,
    ndev: usize,
}

impl Planted {
    pub fn new(cones: Vec<ConeSpec>, n: usize, settings: Vec<SettingsSpec>, judge: Judge, maxdev: usize, xids: Vec<u64>, label: &str) -> Self {
        let m = cones_numel(&cones);
        let proto = planted(&cones, n, 0, 0, 0, 1, &Dense::eye(n), false);
        let _ = m;
        // the deviation list depends on the A pattern's nonzeros; use the union over patterns by indexing
        // deviations per concrete instance and taking the index modulo its length (kept bijective by sizing
        // with the maximum length and treating out-of-range indices as "no deviation" duplicates)
        let ndev = (0..3)
            .map(|w| {
                let mut q = proto.clone();
                q.a = a_pattern(q.m, q.n, w);
                deviations(&q).len()
            })
            .max()
            .unwrap();
        Self {
            cones,
            n,
            settings,
            judge,
            maxdev,
            xids,
            label: label.to_string(),
            inf_rows: false,
            loose_rows: false,
            minus_inf_row: false,
            zero_tail_soc: false,
            ndev,
        }
    }
    pub fn with_zero_tail_soc(mut self) -> Self {
        self.zero_tail_soc = true;
        self.label = format!("{}-zerotailsoc", self.label);
        self
    }
    pub fn with_minus_inf_row(mut self) -> Self {
        self.minus_inf_row = true;
        self.label = format!("{}-minusinfrow", self.label);
        self
    }
    pub fn with_loose_rows(mut self) -> Self {
        self.loose_rows = true;
        self.label = format!("{}-looserows", self.label);
        self
    }
    pub fn with_inf_rows(mut self) -> Self {
        self.inf_rows = true;
        self.label = format!("{}-infrows", self.label);
        self
    }
    fn dev_slots(&self) -> u64 {
        // slot 0 = none; 1..=ndev single; then ordered pairs (i<j)
        let nd = self.ndev as u64;
        match self.maxdev {
            0 => 1,
            1 => 1 + nd,
            _ => 1 + nd + nd * (nd - 1) / 2,
        }
    }
    fn decode(&self, id: u64) -> (Prob, SettingsSpec, Vec<Dev>) {
        let mut d = Digits(id);
        let slot = d.take(self.dev_slots());
        let ss = d.pick(&self.settings).clone();
        let xid = *d.pick(&self.xids);
        let s_which = d.take(2) as usize;
        let z_which = d.take(2) as usize;
        let a_which = d.take(3) as usize;
        let pm = p_menu(self.n);
        let pmat = d.pick(&pm).clone();
        let p_full = d.take(2) == 1;
        let mut p = planted(&self.cones, self.n, xid, s_which, z_which, a_which, &pmat, p_full);
        let devs = deviations(&p);
        let nd = self.ndev as u64;
        let mut chosen = vec![];
        if slot >= 1 && slot <= nd {
            if let Some(dv) = devs.get((slot - 1) as usize) {
                chosen.push(dv.clone());
            }
        } else if slot > nd {
            // unrank pair
            let mut k = slot - nd - 1;
            let mut i = 0u64;
            while k >= nd - 1 - i {
                k -= nd - 1 - i;
                i += 1;
            }
            let j = i + 1 + k;
            if let (Some(a), Some(b)) = (devs.get(i as usize), devs.get(j as usize)) {
                chosen.push(a.clone());
                chosen.push(b.clone());
            }
        }
        for dv in &chosen {
            apply_dev(&mut p, dv);
        }
        if self.inf_rows || self.loose_rows {
            let mut off = 0;
            for c in &p.cones.clone() {
                if matches!(c, ConeSpec::NN(k) if *k > 0) || matches!(c, ConeSpec::SOC(1) | ConeSpec::PSD(1)) {
                    p.b[off] = if self.inf_rows { 1e30 } else { 1e18 };
                }
                off += c.numel();
            }
        }
        if self.zero_tail_soc {
            let mut off = 0;
            for c in &p.cones.clone() {
                if let ConeSpec::SOC(k) = c {
                    for i in off + 1..off + k {
                        for j in 0..p.n {
                            p.a.set(i, j, 0.0);
                        }
                        p.b[i] = 0.0;
                    }
                }
                off += c.numel();
            }
        }
        if self.minus_inf_row {
            let mut off = 0;
            for c in &p.cones.clone() {
                if matches!(c, ConeSpec::NN(k) if *k > 0) {
                    for j in 0..p.n {
                        p.a.set(off, j, 0.0);
                    }
                    p.b[off] = -1e21;
                    break;
                }
                off += c.numel();
            }
        }
        (p, ss, chosen)
    }
}

impl Planted {
    pub fn case_of(&self, id: u64) -> (Prob, SettingsSpec) {
        let (p, ss, _) = self.decode(id);
        (p, ss)
    }
    pub fn devs_of(&self, id: u64) -> Vec<Dev> {
        self.decode(id).2
    }
}

impl Space for Planted {
    fn name(&self) -> String {
        format!(
            "planted-{:?}-n{}-[{}]-dev{}-{}",
            self.judge,
            self.n,
            self.cones.iter().map(|c| c.tag()).collect::<Vec<_>>().join(","),
            self.maxdev,
            self.label
        )
    }
    fn size(&self) -> u64 {
        self.dev_slots() * self.settings.len() as u64 * self.xids.len() as u64 * 2 * 2 * 3 * p_menu(self.n).len() as u64 * 2
    }
    fn describe(&self, id: u64) -> Value {
        let (p, ss, devs) = self.decode(id);
        json!({"problem": p.to_json(), "settings": ss.to_json(), "deviations": devs.iter().map(|d| format!("{:?}", d)).collect::<Vec<_>>()})
    }
    fn bound(&self) -> Value {
        json!({"family":"F2 planted + deviations","n":self.n,"m":cones_numel(&self.cones),"data_deviations<=":self.maxdev,"deviation_menu":self.ndev,"settings_points":self.settings.len(),"x*":self.xids.len()})
    }
    fn run(&self, id: u64, ctx: &mut Ctx) -> CaseResult {
        let (p, ss, _) = self.decode(id);
        apply_judge(self.judge, &p, &ss, ctx)
    }
    fn debug(&self, id: u64) -> String {
        let (p, ss, ..) = self.decode(id);
        match run_solver(&p, &ss, true) {
            Ok(r) => format!("{:#?}", r),
            Err(e) => format!("panic: {}", e),
        }
    }

}

// ----------------------------------------------------------------------
// tier definitions shared by C01..C04
// ----------------------------------------------------------------------
pub fn no_faer(v: Vec<SettingsSpec>) -> Vec<SettingsSpec> {
    v
}

pub fn sweep_spaces(judge: Judge, tier: &str) -> Vec<Box<dyn Space>> {
    let thorough = tier == "thorough";
    let mut v: Vec<Box<dyn Space>> = vec![];
    let s0 = SettingsSpec::lattice(0);
    let s1 = SettingsSpec::lattice(1);
    let s2 = SettingsSpec::lattice(2);
    use ConeSpec::*;
    // F1, n=1 and n=2, m<=2: full one-deviation settings lattice (two in thorough)
    let small_lists: Vec<Vec<ConeSpec>> = vec![
        vec![],
        vec![Zero(1)],
        vec![NN(1)],
        vec![NN(2)],
        vec![Zero(1), NN(1)],
        vec![NN(1), Zero(1)],
        vec![SOC(2)],
        vec![SOC(1), NN(1)],
        vec![NN(0), NN(1), NN(0)],
        vec![PSD(1), SOC(1)],
    ];
    for l in &small_lists {
        for n in 1..=2 {
            v.push(Box::new(Tiny::new(l.clone(), n, if thorough { s2.clone() } else { s1.clone() }, judge, if thorough { "S<=2" } else { "S<=1" })));
        }
    }
    // F1, m = 3
    let m3_lists: Vec<Vec<ConeSpec>> = vec![
        vec![NN(3)],
        vec![Zero(1), NN(2)],
        vec![SOC(3)],
        vec![Exp],
        vec![Pow(0.5)],
        vec![Pow(0.25)],
        vec![GenPow(vec![0.5, 0.5], 1)],
        vec![NN(1), SOC(2)],
        vec![PSD(2)],
        vec![Zero(2), NN(1)],
        vec![SOC(2), Zero(1)],
        vec![NN(1), Zero(1), NN(1)],
        vec![NN(1), SOC(1), Zero(1)],
    ];
    for l in &m3_lists {
        v.push(Box::new(Tiny::new(l.clone(), 1, if thorough { s1.clone() } else { s0.clone() }, judge, if thorough { "S<=1" } else { "default" })));
        if thorough {
            v.push(Box::new(Tiny::new(l.clone(), 2, s0.clone(), judge, "default")));
        }
    }
    if !thorough {
        // a few n=2,m=3 lists already in quick
        for l in [vec![NN(3)], vec![SOC(3)], vec![Exp]] {
            v.push(Box::new(Tiny::new(l, 2, s0.clone(), judge, "default")));
        }
    }
    // F2 planted + deviations
    let planted_lists: Vec<(Vec<ConeSpec>, usize)> = vec![
        (vec![NN(3), SOC(3)], 3),
        (vec![Zero(1), NN(2), Exp], 3),
        (vec![Pow(0.25), NN(2)], 2),
        (vec![GenPow(vec![0.2, 0.3, 0.5], 2), Zero(1)], 3),
        (vec![SOC(5), NN(1)], 3),
        (vec![PSD(2), NN(2)], 2),
        (vec![PSD(3), Zero(1)], 3),
        (vec![Exp, Pow(0.5)], 3),
        (vec![SOC(3), SOC(2), NN(1)], 3),
        (vec![NN(2), SOC(1), PSD(1), Zero(1)], 2),
    ];
    let xq: Vec<u64> = vec![0, 5, 13];
    let xt: Vec<u64> = (0..27).collect();
    for (l, n) in &planted_lists {
        let xids: Vec<u64> = if thorough { xt.iter().cloned().filter(|x| *x < 3u64.pow(*n as u32)).collect() } else { xq.iter().cloned().filter(|x| *x < 3u64.pow(*n as u32)).collect() };
        if thorough {
            v.push(Box::new(Planted::new(l.clone(), *n, s1.clone(), judge, 1, xids.clone(), "S<=1")));
            v.push(Box::new(Planted::new(l.clone(), *n, s0.clone(), judge, 2, xids, "default")));
        } else {
            v.push(Box::new(Planted::new(l.clone(), *n, s0.clone(), judge, 1, xids.clone(), "default")));
            v.push(Box::new(Planted::new(l.clone(), *n, s1.clone(), judge, 0, xids.clone(), "S<=1")));
        }
        if l.iter().any(|c| matches!(c, NN(k) if *k > 0) || matches!(c, SOC(1) | PSD(1))) {
            // "no bound" written as 1e18: kept rows, 18 orders of magnitude in b
            v.push(Box::new(Planted::new(l.clone(), *n, if thorough { s1.clone() } else { s0.clone() }, judge, if thorough { 1 } else { 0 }, vec![5 % 3u64.pow(*n as u32)], "default").with_loose_rows()));
            let dev = if thorough { 1 } else { 0 };
            v.push(Box::new(Planted::new(l.clone(), *n, s1.clone(), judge, dev, if thorough { xt.iter().cloned().filter(|x| *x < 3u64.pow(*n as u32)).collect() } else { xq.iter().cloned().filter(|x| *x < 3u64.pow(*n as u32)).collect() }, "S<=1").with_inf_rows()));
        }
    }
    v
}
