//! C07 — iterates stay strictly inside the cones and the trajectory does not depend on the budget.
//! For every base problem (planted family + one data deviation) and every step-rule setting:
//! one long observed run, then *every* prefix budget max_iter = k, k = 0..K.

use super::sweep::{Judge, Planted};
use crate::dense::norm2;
use crate::oracle::*;
use crate::problem::*;
use crate::solve::*;
use crate::util::*;
use clarabel::solver::{IPSolver, SolverStatus};
use clarabel::verif_hooks::{observer_arm, observer_take};
use serde_json::{json, Value};

pub struct Traj {
    pub src: Planted,
    pub step_rules: Vec<(f64, f64)>, // (max_step_fraction, linesearch_backtrack_step)
    pub kmax: u32,
    /// the objective (P, q) is multiplied by each of these factors in turn
    pub obj_scales: Vec<f64>,
}

impl Traj {
    fn decode(&self, id: u64) -> (Prob, SettingsSpec) {
        let mut d = Digits(id);
        let (msf, bt) = *d.pick(&self.step_rules);
        let sc = *d.pick(&self.obj_scales);
        let (mut p, mut ss) = self.src.case_of(d.0);
        for v in p.q.iter_mut() {
            *v *= sc;
        }
        for v in p.p.a.iter_mut() {
            *v *= sc;
        }
        ss.max_step_fraction = msf;
        ss.linesearch_backtrack_step = bt;
        (p, ss)
    }
}

fn bits_eq(a: &[f64], b: &[f64]) -> bool {
    a.len() == b.len() && a.iter().zip(b).all(|(x, y)| x.to_bits() == y.to_bits())
}

impl Space for Traj {
    fn name(&self) -> String {
        format!("trajectory-{}", self.src.name())
    }
    fn size(&self) -> u64 {
        self.src.size() * self.step_rules.len() as u64 * self.obj_scales.len() as u64
    }
    fn describe(&self, id: u64) -> Value {
        let (p, ss) = self.decode(id);
        json!({"problem": p.to_json(), "settings": ss.to_json(), "prefix_budgets": format!("max_iter = 0..={}", self.kmax)})
    }
    fn bound(&self) -> Value {
        json!({"step_rules(max_step_fraction,backtrack)": self.step_rules, "prefix_budgets<=": self.kmax})
    }
    fn run(&self, id: u64, ctx: &mut Ctx) -> CaseResult {
        let (p, ss) = self.decode(id);
        let Ok(long) = run_solver(&p, &ss, true) else {
            ctx.outcome("panic(skipped: judged by C04)");
            return Ok(());
        };
        ctx.outcome(status_name(long.status));
        ctx.transitions += long.iters.len() as u64;
        // the internal problem keeps the (collapsed, possibly reduced) cones; the planted family has no
        // infinite bounds, so the user's cone list partitions the internal rows identically
        let nosk = vec![false; p.m];
        if long.internal_m != p.m {
            return Ok(());
        }
        if std::env::var("VERIF_DEBUG").is_ok() {
            eprintln!("status {:?} iterations {}", long.status, long.iterations);
            for (k, it) in long.iters.iter().enumerate() {
                let (ms, _) = worst_margin_strict(&p.cones, &it.s, false, &nosk);
                let (mz, _) = worst_margin_strict(&p.cones, &it.z, true, &nosk);
                eprintln!("#{:3} iter {:3} alpha {:.6e} tau {:.3e} kappa {:.3e} margin_s {:.3e} margin_z {:.3e}", k, it.iter, it.alpha, it.tau, it.kappa, ms, mz);
                if std::env::var("VERIF_DEBUG").map(|v| v == "2").unwrap_or(false) {
                    eprintln!("     s = {:?}\n     z = {:?}", it.s, it.z);
                }
            }
        }
        // ---- interiority of every observed iterate
        let mut prev_iter = 0u32;
        for (k, it) in long.iters.iter().enumerate() {
            if !(it.tau.is_finite() && it.kappa.is_finite() && it.s.iter().all(|v| v.is_finite()) && it.z.iter().all(|v| v.is_finite())) {
                // non-finite iterates only ever accompany a numerical failure
                ensure!(
                    matches!(long.status, SolverStatus::NumericalError | SolverStatus::MaxIterations | SolverStatus::InsufficientProgress),
                    "nonfinite-iterate-with-a-verdict",
                    "iterate #{} non-finite but status {:?}",
                    k,
                    long.status
                );
                break;
            }
            ensure!(it.tau > 0.0, "tau-not-positive", "iterate #{} (iter {}): tau = {:e}", k, it.iter, it.tau);
            ensure!(it.kappa > 0.0, "kappa-not-positive", "iterate #{} (iter {}): kappa = {:e}", k, it.iter, it.kappa);
            // data spanning 18 orders of magnitude (loose 1e18 rows) put the rounding of the step computation at
            // about 1e-9 of the iterate; otherwise 1e-12
            let mtol = if self.src.loose_rows { 1e-9 } else { 1e-12 };
            let prev = if k > 0 { Some(&long.iters[k - 1]) } else { None };
            let (ms, cs) = worst_margin_step(&p.cones, &it.s, prev.map(|r| &r.s[..]), false);
            ensure!(ms > -mtol, "slack-iterate-outside-cone", "iterate #{} (iter {}): cone #{} ({}) relative margin {:e}, s = {:?}", k, it.iter, cs, p.cones[cs].tag(), ms, it.s);
            let (mz, cz) = worst_margin_step(&p.cones, &it.z, prev.map(|r| &r.z[..]), true);
            ensure!(mz > -mtol, "dual-iterate-outside-cone", "iterate #{} (iter {}): cone #{} ({}) relative margin {:e}, z = {:?}", k, it.iter, cz, p.cones[cz].tag(), mz, it.z);
            // for the nonnegative cone membership is decided entry by entry without any rounding in the
            // predicate: strict positivity is exact (an entry of exactly 0 makes the NT scaling infinite)
            let mut off = 0;
            for c in &p.cones {
                if let ConeSpec::NN(d) = c {
                    for i in off..off + d {
                        // (an entry that was already below 1e-290 may underflow to zero: floating point, not the step rule)
                        let under = |f: &dyn Fn(&clarabel::verif_hooks::IterRecord) -> f64| prev.map(|r| f(r).abs() < 1e-290).unwrap_or(false);
                        ensure!(it.s[i] > 0.0 || under(&|r| r.s[i]), "slack-iterate-on-boundary", "iterate #{} (iter {}): s[{}] = {:e} in a nonnegative cone", k, it.iter, i, it.s[i]);
                        ensure!(it.z[i] > 0.0 || under(&|r| r.z[i]), "dual-iterate-on-boundary", "iterate #{} (iter {}): z[{}] = {:e} in a nonnegative cone", k, it.iter, i, it.z[i]);
                    }
                }
                off += c.numel();
            }
            // a strategy switch re-enters the loop with the counter advanced, a zero step and an unchanged iterate
            let unchanged = k > 0 && {
                let pv = &long.iters[k - 1];
                pv.tau.to_bits() == it.tau.to_bits() && pv.kappa.to_bits() == it.kappa.to_bits() && bits_eq(&pv.x, &it.x) && bits_eq(&pv.s, &it.s) && bits_eq(&pv.z, &it.z)
            };
            if k > 0 && it.iter > prev_iter && !(it.alpha == 0.0 && unchanged) {
                ensure!(it.alpha > 0.0 && it.alpha <= 1.0, "step-length-out-of-range", "iterate #{}: accepted step alpha = {:e}", k, it.alpha);
                ensure!(it.alpha <= ss.max_step_fraction * (1.0 + 1e-15), "step-exceeds-max-step-fraction", "alpha {:e} > {}", it.alpha, ss.max_step_fraction);
            }
            prev_iter = it.iter;
        }
        // ---- prefix reproducibility
        let kfinal = std::cmp::min(long.iterations, self.kmax);
        for k in 0..=kfinal {
            let mut sk = ss.clone();
            sk.max_iter = k;
            let short = run_solver(&p, &sk, true).map_err(|e| Violation::new("prefix-run-panics", format!("max_iter={}: {}", k, e)))?;
            ctx.transitions += short.iters.len() as u64;
            ensure!(short.iterations <= k, "prefix-run-exceeds-budget", "max_iter={} but iterations={}", k, short.iterations);
            // first observed iterate of the long run with counter k
            let Some(want) = long.iters.iter().find(|r| r.iter == k) else {
                continue;
            };
            if short.iterations < k {
                // the short run stopped earlier with a verdict: then the long run must have stopped there too
                ensure!(long.iterations == short.iterations, "prefix-run-stops-earlier-than-long-run", "max_iter={}: short run stopped at {} ({:?}), long run at {}", k, short.iterations, short.status, long.iterations);
                continue;
            }
            let got = short.iters.iter().find(|r| r.iter == k).ok_or_else(|| Violation::new("prefix-run-never-reaches-k", format!("max_iter={}", k)))?;
            ensure!(
                got.tau.to_bits() == want.tau.to_bits() && got.kappa.to_bits() == want.kappa.to_bits() && bits_eq(&got.x, &want.x) && bits_eq(&got.s, &want.s) && bits_eq(&got.z, &want.z),
                "trajectory-depends-on-budget",
                "iterate {} differs between max_iter={} and the long run: x {:?} vs {:?}, tau {} vs {}",
                k,
                k,
                got.x,
                want.x,
                got.tau,
                want.tau
            );
            // and the returned vectors are that iterate, un-scaled
            // (only for a pure budget stop: a verdict reached through the insufficient-progress roll-back
            // legitimately returns the previous iterate)
            if short.status == SolverStatus::MaxIterations && short.iterations == k && long.iters.iter().filter(|r| r.iter == k).count() == 1 {
                let (d, e, c) = (&short.equil_d, &short.equil_e, short.equil_c);
                for j in 0..p.n {
                    let w = want.x[j] * d[j] / want.tau;
                    ensure!((short.x[j] - w).abs() <= 8.0 * f64::EPSILON * w.abs(), "returned-x-is-not-the-kth-iterate", "max_iter={} x[{}]={:e} want {:e}", k, j, short.x[j], w);
                }
                for i in 0..p.m {
                    let ws = want.s[i] / e[i] / want.tau;
                    let wz = want.z[i] * e[i] / (want.tau * c);
                    ensure!((short.s[i] - ws).abs() <= 8.0 * f64::EPSILON * ws.abs(), "returned-s-is-not-the-kth-iterate", "max_iter={} s[{}]={:e} want {:e}", k, i, short.s[i], ws);
                    ensure!((short.z[i] - wz).abs() <= 8.0 * f64::EPSILON * wz.abs(), "returned-z-is-not-the-kth-iterate", "max_iter={} z[{}]={:e} want {:e}", k, i, short.z[i], wz);
                }
            }
        }
        // ---- the same holds for re-solves on one solver object (histories): budgets in a fixed mixed order,
        // each run must pass through the long run's iterates whatever was solved before on that object
        let budgets: Vec<u32> = {
            let mut b = vec![std::cmp::min(2, kfinal), ss.max_iter, 0, kfinal, 1, std::cmp::min(3, kfinal)];
            b.dedup();
            b
        };
        let hist = guarded(|| {
            let mut solver = p.build(ss.build());
            let mut out = vec![];
            for &k in &budgets {
                solver.settings.max_iter = k;
                observer_arm();
                solver.solve();
                out.push((k, observer_take(), solver.solution.iterations));
            }
            out
        })
        .map_err(|e| {
            let _ = observer_take();
            Violation::new("re-solve-panics", e)
        })?;
        for (hi, (k, iters, niter)) in hist.iter().enumerate() {
            ctx.transitions += iters.len() as u64;
            ensure!(*niter <= *k, "prefix-run-exceeds-budget", "re-solve #{} max_iter={} but iterations={}", hi, k, niter);
            for got in iters.iter() {
                let Some(want) = long.iters.iter().find(|r| r.iter == got.iter) else {
                    continue;
                };
                // compare the first observation with each counter value only
                if iters.iter().find(|r| r.iter == got.iter).map(|r| std::ptr::eq(r, got)) != Some(true) {
                    continue;
                }
                ensure!(
                    got.tau.to_bits() == want.tau.to_bits() && got.kappa.to_bits() == want.kappa.to_bits() && bits_eq(&got.x, &want.x) && bits_eq(&got.s, &want.s) && bits_eq(&got.z, &want.z),
                    "trajectory-depends-on-solver-history",
                    "re-solve #{} (budgets so far {:?}): iterate {} differs from a fresh run: tau {} vs {}, kappa {} vs {}, x {:?} vs {:?}",
                    hi,
                    &budgets[..=hi],
                    got.iter,
                    got.tau,
                    want.tau,
                    got.kappa,
                    want.kappa,
                    got.x,
                    want.x
                );
            }
        }
        ctx.nontrivial += 1;
        Ok(())
    }
}

/// worst cone margin of an iterate, relative to the magnitudes that entered the update that produced it:
/// v_k = v_{k-1} + alpha dv is rounded relative to max(|v_{k-1}|, |v_k|) per cone block (a step that passes close
/// to the apex of a cone shrinks the block by orders of magnitude; its rounding error does not shrink with it)
fn worst_margin_step(cones: &[ConeSpec], v: &[f64], vprev: Option<&[f64]>, dual: bool) -> (f64, usize) {
    let mut worst = f64::INFINITY;
    let mut which = 0;
    let mut off = 0;
    for (ci, c) in cones.iter().enumerate() {
        let k = c.numel();
        if k > 0 {
            let blk = &v[off..off + k];
            let mm = if dual { margin_dual(c, blk) } else { margin_primal(c, blk) };
            let mut scale = f64::max(1.0, norm2(blk));
            if let Some(pv) = vprev {
                scale = scale.max(norm2(&pv[off..off + k]));
            }
            let m = mm / scale;
            if m < worst {
                worst = m;
                which = ci;
            }
        }
        off += k;
    }
    (worst, which)
}
fn worst_margin_strict(cones: &[ConeSpec], v: &[f64], dual: bool, _skip: &[bool]) -> (f64, usize) {
    worst_margin_step(cones, v, None, dual)
}

pub const ASSUMPTIONS: &[&str] = &[
    "interiority is judged on the internal (equilibrated) iterates with the textbook predicates and a rounding margin of 1e-12 relative to the larger of the block norms before and after the step (1e-9 for bases with a 1e18 right-hand side); a one-ulp overshoot is invisible; nonnegative-cone entries must be strictly positive (exact predicate)",
    "the k-th iterate of a run is the first iterate observed with iteration counter k (a strategy switch re-enters the loop with the same counter)",
    "iterates are observed through the guarded read-only hook in DefaultInfo::update",
];

pub fn spaces(tier: &str, _seed: u64) -> Vec<Box<dyn Space>> {
    use ConeSpec::*;
    let thorough = tier == "thorough";
    let rules: Vec<(f64, f64)> = if thorough {
        vec![(0.99, 0.8), (0.5, 0.8), (0.999, 0.8), (0.99, 0.5), (0.5, 0.5), (0.999, 0.5)]
    } else {
        vec![(0.99, 0.8), (0.5, 0.5)]
    };
    let lists: Vec<(Vec<ConeSpec>, usize)> = vec![
        (vec![NN(3), SOC(3)], 3),
        (vec![Zero(1), NN(2), Exp], 3),
        (vec![Pow(0.25), NN(2)], 2),
        (vec![GenPow(vec![0.2, 0.3, 0.5], 2), Zero(1)], 3),
        (vec![SOC(5), NN(1)], 3),
        (vec![PSD(2), NN(2)], 2),
        (vec![Exp, Pow(0.5)], 3),
        (vec![PSD(3), SOC(2)], 3),
    ];
    let s0 = vec![SettingsSpec::default()];
    let mut v: Vec<Box<dyn Space>> = vec![];
    let nlists = lists.len();
    for (li, (l, n)) in lists.into_iter().enumerate() {
        if !thorough && li == nlists - 1 {
            continue; // PSD(3) trajectories are slow on the plain-Rust LAPACK shims: thorough tier only
        }
        // thorough: every third planted x* (9 of 27 for n = 3, 3 of 9 for n = 2)
        let xids: Vec<u64> = if thorough { (0..3u64.pow(n as u32)).step_by(3).collect() } else { vec![5] };
        if l.iter().any(|c| matches!(c, NN(k) if *k > 0)) && li != 5 {
            // loose "no bound" rows (1e18): the start-up shift into the cone has to cope with margins of -1e18
            v.push(Box::new(Traj {
                src: Planted::new(l.clone(), n, s0.clone(), Judge::C04, if thorough { 1 } else { 0 }, vec![5], "default").with_loose_rows(),
                step_rules: rules.clone(),
                kmax: if thorough { 60 } else { 25 },
                obj_scales: vec![1.0],
            }));
        }
        if l.iter().any(|c| matches!(c, SOC(k) if *k > 1)) && li != 7 {
            // second-order cones with a zero tail: slack and step of that block are collinear
            v.push(Box::new(Traj {
                src: Planted::new(l.clone(), n, s0.clone(), Judge::C04, if thorough { 1 } else { 0 }, vec![5], "default").with_zero_tail_soc(),
                step_rules: rules.clone(),
                kmax: if thorough { 60 } else { 25 },
                obj_scales: vec![1.0],
            }));
        }
        let nonsym = l.iter().any(|c| matches!(c, Exp | Pow(_) | GenPow(_, _)));
        let mut rules_l = rules.clone();
        if nonsym {
            // backtracking factors close to 1: the line search needs many trials before it finds a feasible step
            rules_l.push((0.99, 0.99));
            rules_l.push((0.99, 0.95));
        }
        v.push(Box::new(Traj {
            src: Planted::new(l, n, s0.clone(), Judge::C04, 1, xids, "default"),
            step_rules: rules_l,
            kmax: if thorough { 60 } else { 25 },
            obj_scales: if li == 3 || li == 2 { vec![1.0, 1e3] } else { vec![1.0] },
        }));
    }
    v
}
