//! C14 — nonsymmetric-cone barrier calculus matches the cones' mathematical definitions.
//! The dual barriers are written once in the harness over a jet number type; stored gradients,
//! Hessians, third-order corrections, conjugacy and scalings of the real cone objects are
//! compared with exact automatic derivatives over a lattice of interior points.

use super::c15::{nonsym_point, NKind};
use crate::dense::*;
use crate::jets::*;
use crate::oracle::{margin_dual, margin_primal};
use crate::problem::ConeSpec;
use crate::util::*;
use clarabel::verif_hooks::*;
use serde_json::{json, Value};

// ---- the dual barriers by their mathematical definitions ----
fn fstar_exp<T: Num>(z: &[T]) -> T {
    // f*(z) = -log(z2 - z1 - z1 log(z3/(-z1))) - log(-z1) - log(z3),  z1 < 0, z3 > 0
    let l = (z[2] / (-z[0])).ln();
    -((z[1] - z[0] - z[0] * l).ln()) - (-z[0]).ln() - z[2].ln()
}
fn fstar_pow<T: Num>(z: &[T], a: f64) -> T {
    // f*(z) = -log((z1/a)^{2a} (z2/(1-a))^{2(1-a)} - z3^2) - (1-a) log z1 - a log z2
    let t = (z[0] / T::c(a)).powf(2.0 * a) * (z[1] / T::c(1.0 - a)).powf(2.0 * (1.0 - a)) - z[2] * z[2];
    -(t.ln()) - T::c(1.0 - a) * z[0].ln() - T::c(a) * z[1].ln()
}
fn fstar_genpow<T: Num>(z: &[T], a: &[f64]) -> T {
    // f*(z) = -log(prod (z_i/a_i)^{2 a_i} - ||w||^2) - sum (1-a_i) log z_i
    let d1 = a.len();
    let mut phi = T::c(1.0);
    for i in 0..d1 {
        phi = phi * (z[i] / T::c(a[i])).powf(2.0 * a[i]);
    }
    let mut w2 = T::c(0.0);
    for zi in &z[d1..] {
        w2 = w2 + *zi * *zi;
    }
    let mut out = -((phi - w2).ln());
    for i in 0..d1 {
        out = out - T::c(1.0 - a[i]) * z[i].ln();
    }
    out
}

fn fstar<T: Num>(k: &NKind, z: &[T]) -> T {
    match k {
        NKind::Exp => fstar_exp(z),
        NKind::Pow(a) => fstar_pow(z, *a),
        NKind::GenPow(a, _) => fstar_genpow(z, a),
    }
}
fn degree(k: &NKind) -> f64 {
    match k {
        NKind::Exp | NKind::Pow(_) => 3.0,
        NKind::GenPow(a, _) => a.len() as f64 + 1.0,
    }
}

fn basis(n: usize, k: usize) -> Vec<f64> {
    let mut e = vec![0.0; n];
    e[k] = 1.0;
    e
}
fn grad_ad(k: &NKind, z: &[f64]) -> Vec<f64> {
    let n = z.len();
    (0..n).map(|i| d1(&|x| fstar(k, x), z, &basis(n, i))).collect()
}
fn hess_ad(k: &NKind, z: &[f64]) -> Dense {
    let n = z.len();
    let mut h = Dense::zeros(n, n);
    for i in 0..n {
        for j in 0..n {
            h.set(i, j, d2(&|x| fstar(k, x), z, &basis(n, i), &basis(n, j)));
        }
    }
    h
}

enum AnyCone {
    Exp(ExponentialCone<f64>),
    Pow(PowerCone<f64>),
    Gen(GenPowerCone<f64>),
}
impl AnyCone {
    fn new(k: &NKind) -> Self {
        match k {
            NKind::Exp => AnyCone::Exp(ExponentialCone::new()),
            NKind::Pow(a) => AnyCone::Pow(PowerCone::new(*a)),
            NKind::GenPow(a, d) => AnyCone::Gen(GenPowerCone::new(a.clone(), *d)),
        }
    }
    fn view(&mut self) -> &mut dyn NonsymView<f64> {
        match self {
            AnyCone::Exp(c) => c,
            AnyCone::Pow(c) => c,
            AnyCone::Gen(c) => c,
        }
    }
    fn cone(&mut self) -> &mut dyn Cone<f64> {
        match self {
            AnyCone::Exp(c) => c,
            AnyCone::Pow(c) => c,
            AnyCone::Gen(c) => c,
        }
    }
}

fn relerr(a: &[f64], b: &[f64]) -> f64 {
    let d: Vec<f64> = a.iter().zip(b).map(|(x, y)| x - y).collect();
    norm2(&d) / f64::max(norm2(a), norm2(b)).max(1e-300)
}
fn matrel(a: &Dense, b: &Dense) -> f64 {
    let mut num = 0.0f64;
    for k in 0..a.a.len() {
        num = num.max((a.a[k] - b.a[k]).abs());
    }
    num / a.norm_inf_all().max(b.norm_inf_all()).max(1e-300)
}
fn rows_to_dense(r: &[Vec<f64>]) -> Dense {
    Dense::from_rows(r, r.len())
}

const NPTS: u64 = 3 * 6 * 3;
const MUS: [f64; 3] = [1.0, 1e-6, 1e3];
/// common scale factor applied to the whole lattice (cones are invariant under positive scaling)
const SCALES: [f64; 3] = [1.0, 1e8, 1e-8];

pub struct Calculus {
    pub kind: NKind,
}
impl Calculus {
    fn spec(&self) -> ConeSpec {
        match &self.kind {
            NKind::Exp => ConeSpec::Exp,
            NKind::Pow(a) => ConeSpec::Pow(*a),
            NKind::GenPow(a, d) => ConeSpec::GenPow(a.clone(), *d),
        }
    }
    fn decode(&self, id: u64) -> (Vec<f64>, Vec<f64>, f64) {
        let mut d = Digits(id);
        let mu = *d.pick(&MUS);
        let zi = d.take(NPTS);
        let si = d.take(NPTS);
        let sc = *d.pick(&SCALES);
        let scale = |v: Vec<f64>| -> Vec<f64> { v.into_iter().map(|x| x * sc).collect() };
        (scale(nonsym_point(&self.kind, true, zi)), scale(nonsym_point(&self.kind, false, si)), mu)
    }
    /// the object's earlier life: None = fresh, Some = it was scaled at another lattice point first
    fn prior(&self, id: u64) -> Option<(Vec<f64>, Vec<f64>)> {
        let per = (MUS.len() * SCALES.len()) as u64 * NPTS * NPTS;
        if id / per == 0 {
            return None;
        }
        let mut d = Digits(id % per);
        let _ = d.pick(&MUS);
        let zi = d.take(NPTS);
        let si = d.take(NPTS);
        Some((nonsym_point(&self.kind, true, (zi + 17) % NPTS), nonsym_point(&self.kind, false, (si + 31) % NPTS)))
    }
}

impl Space for Calculus {
    fn name(&self) -> String {
        format!("barrier-calculus-{:?}", self.kind)
    }
    fn size(&self) -> u64 {
        2 * (MUS.len() * SCALES.len()) as u64 * NPTS * NPTS
    }
    fn describe(&self, id: u64) -> Value {
        let (z, s, mu) = self.decode(id);
        json!({"cone": format!("{:?}", self.kind), "z": z, "s": s, "mu": mu, "object_used_before_at": self.prior(id).map(|(z0, s0)| json!({"z": z0, "s": s0}))})
    }
    fn bound(&self) -> Value {
        json!({"dual_points": NPTS, "primal_points": NPTS, "mu": MUS, "lattice": "magnitudes {1,1e-3,1e3} x boundary fractions {0,+-.5,+-.99,1-1e-6} x skew {1,1e-2,1e2}", "common_scale": SCALES, "object": "fresh | used at another lattice point before"})
    }
    fn run(&self, id: u64, ctx: &mut Ctx) -> CaseResult {
        let (z, s, mu) = self.decode(id);
        let cs = self.spec();
        let k = &self.kind;
        let n = z.len();
        let (mz, ms) = (margin_dual(&cs, &z), margin_primal(&cs, &s));
        let mut any = AnyCone::new(k);
        if let Some((z0, s0)) = self.prior(id) {
            // histories: the object has been used at another scaling point before (both strategies)
            if margin_dual(&cs, &z0) > 0.0 && margin_primal(&cs, &s0) > 0.0 {
                let _ = any.cone().update_scaling(&s0, &z0, 0.5, ScalingStrategy::PrimalDual);
                let _ = any.view().v_higher_correction(&s0, &z0);
                let _ = any.cone().update_scaling(&s0, &z0, 0.5, ScalingStrategy::Dual);
                ctx.outcome("object-used-before");
            }
        }
        // ---- membership predicates agree with the textbook definitions (interior lattice points)
        ensure!(any.view().v_is_dual_feasible(&z) == (mz > 0.0), "is_dual_feasible-disagrees", "z={:?} textbook margin {:e}", z, mz);
        ensure!(any.view().v_is_primal_feasible(&s) == (ms > 0.0), "is_primal_feasible-disagrees", "s={:?} textbook margin {:e}", s, ms);
        if !(mz > 0.0 && ms > 0.0) {
            ctx.outcome("lattice-point-on-boundary");
            return Ok(());
        }
        // conditioning of the point: relative distance to the boundary (derivatives blow up like 1/dist^k)
        let rz = mz / norm2(&z);
        let rs = ms / norm2(&s);
        let tol1 = 1e-13 / rz.min(1.0);
        let tol2 = 1e-12 / (rz * rz).min(1.0);
        let mut meas = |name: &str, e: f64, tol: f64, ctx: &mut Ctx| -> CaseResult {
            ctx.measure_max(&format!("err/tol:{}", name), e / tol);
            ensure!(e <= tol, &format!("barrier-calculus:{}", name), "error {:e} > tol {:e} at z={:?} s={:?} mu={}", e, tol, z, s, mu);
            Ok(())
        };
        // ---- barrier value, stored gradient and Hessian
        let fz = fstar::<f64>(k, &z);
        let got = any.view().v_barrier_dual(&z);
        meas("barrier_dual-value", (got - fz).abs() / fz.abs().max(1.0), 1e-13 / rz.min(1.0), ctx)?;
        any.view().v_update_dual_grad_H(&z);
        let g_ad = grad_ad(k, &z);
        let h_ad = hess_ad(k, &z);
        meas("grad=Df*", relerr(&any.view().v_grad(), &g_ad), tol1, ctx)?;
        meas("H_dual=D2f*", matrel(&rows_to_dense(&any.view().v_H_dual()), &h_ad), tol2, ctx)?;
        // ---- third-order correction: eta = 1/2 D^3 f*(z)[H^{-1} ds, v]
        let ds: Vec<f64> = (0..n).map(|i| s[i] * (1.0 + 0.1 * i as f64)).collect();
        let vdir: Vec<f64> = (0..n).map(|i| z[i] * (if i % 2 == 0 { 0.3 } else { -0.2 })).collect();
        let mut want_eta: Option<Vec<f64>> = None;
        if let Some(eta) = any.view().v_higher_correction(&ds, &vdir) {
            if let Some(u) = solve_dense(&h_ad, &ds) {
                let want: Vec<f64> = (0..n).map(|i| 0.5 * d3(&|x| fstar(k, x), &z, &basis(n, i), &u, &vdir)).collect();
                meas("higher_correction", relerr(&eta, &want), 1e-11 / (rz * rz * rz).min(1.0), ctx)?;
                want_eta = Some(want);
            }
        }
        // ---- conjugacy: Df*(-g(s)) = -s and <s, g(s)> = -nu
        let g = any.view().v_gradient_primal(&s);
        let minus_g: Vec<f64> = g.iter().map(|x| -x).collect();
        ensure!(margin_dual(&cs, &minus_g) > 0.0, "barrier-calculus:minus-primal-gradient-not-in-dual-cone", "s={:?} g={:?}", s, g);
        let back = grad_ad(k, &minus_g);
        let want: Vec<f64> = s.iter().map(|x| -x).collect();
        meas("conjugacy Df*(-g(s))=-s", relerr(&back, &want), 1e-6 / rs.min(1.0), ctx)?;
        meas("<s,g(s)>=-nu", (dot(&s, &g) + degree(k)).abs() / degree(k), 1e-7 / rs.min(1.0), ctx)?;
        // ---- primal barrier value f(s) = -f*(-g(s)) - nu, asked of an object that has just evaluated the
        // barrier at another primal point (scratch buffers must not leak from one evaluation into the next)
        {
            let so = nonsym_point(k, false, (id / 3 + 5) % NPTS);
            if margin_primal(&cs, &so) > 0.0 {
                let _ = any.view().v_barrier_primal(&so);
            }
            let got = any.view().v_barrier_primal(&s);
            let want = -fstar::<f64>(k, &minus_g) - degree(k);
            meas("barrier_primal-value", (got - want).abs() / want.abs().max(1.0), 1e-6 / rs.min(1.0), ctx)?;
        }
        // ---- scalings
        let ok = any.cone().update_scaling(&s, &z, mu, ScalingStrategy::Dual);
        ensure!(ok, "update_scaling-fails-on-interior-point", "");
        let hs = rows_to_dense(&any.view().v_Hs());
        let hd = rows_to_dense(&any.view().v_H_dual());
        let mut muh = hd.clone();
        for v in muh.a.iter_mut() {
            *v *= mu;
        }
        meas("dual-scaling Hs=mu*H", matrel(&hs, &muh), 1e-14, ctx)?;
        // the correction as the solver obtains it: on objects that only ever see the real update_scaling
        // (either strategy, fresh or used at another point before), never the hook that sets the scaling point
        if let Some(want) = &want_eta {
            for strat in [ScalingStrategy::Dual, ScalingStrategy::PrimalDual] {
                if matches!(k, NKind::GenPow(_, _)) && strat == ScalingStrategy::PrimalDual {
                    continue;
                }
                let mut other = AnyCone::new(k);
                if let Some((z0, s0)) = self.prior(id) {
                    if margin_dual(&cs, &z0) > 0.0 && margin_primal(&cs, &s0) > 0.0 {
                        let _ = other.cone().update_scaling(&s0, &z0, 0.5, ScalingStrategy::PrimalDual);
                    }
                }
                ensure!(other.cone().update_scaling(&s, &z, mu, strat), "update_scaling-fails-on-interior-point", "");
                if let Some(eta) = other.view().v_higher_correction(&ds, &vdir) {
                    meas(if strat == ScalingStrategy::Dual { "higher_correction after update_scaling(Dual)" } else { "higher_correction after update_scaling(PrimalDual)" }, relerr(&eta, want), 1e-11 / (rz * rz * rz).min(1.0), ctx)?;
                }
            }
        }
        // mul_Hs and get_Hs agree with the stored matrix where implemented (3-d cones panic in mul_Hs by design: skip there)
        if matches!(k, NKind::GenPow(_, _)) {
            let x: Vec<f64> = (0..n).map(|i| 1.0 - 0.3 * i as f64).collect();
            let mut y = vec![0.0; n];
            let mut w = vec![0.0; n];
            any.cone().mul_Hs(&mut y, &x, &mut w);
            meas("genpow mul_Hs", relerr(&y, &hs.mulvec(&x)), 1e-9 / (rz * rz).min(1.0), ctx)?;
        } else {
            let mut blk = vec![0.0; 6];
            any.cone().get_Hs(&mut blk);
            let mut kk = 0;
            let mut worst = 0.0f64;
            for col in 0..3 {
                for row in 0..=col {
                    worst = worst.max((blk[kk] - hs.at(row, col)).abs());
                    kk += 1;
                }
            }
            meas("get_Hs-block", worst / hs.norm_inf_all().max(1e-300), 1e-15, ctx)?;
            // primal-dual scaling
            let ok = any.cone().update_scaling(&s, &z, mu, ScalingStrategy::PrimalDual);
            ensure!(ok, "update_scaling-fails-on-interior-point", "");
            let hs = rows_to_dense(&any.view().v_Hs());
            let mut asym = 0.0f64;
            for i in 0..3 {
                for j in 0..3 {
                    asym = asym.max((hs.at(i, j) - hs.at(j, i)).abs());
                }
            }
            ensure!(asym == 0.0, "barrier-calculus:Hs-not-symmetric", "{:e}", asym);
            let mul = dot(&s, &z) / 3.0;
            let mut fallback = hd.clone();
            for v in fallback.a.iter_mut() {
                *v *= mul;
            }
            if matrel(&hs, &fallback) <= 1e-14 {
                ctx.outcome("primal-dual->fallback mu*H");
            } else {
                // positive definite, maps z to s and the shadow dual point to the shadow slack
                let ev = sym_eigvals(&hs);
                ensure!(ev[0] > 0.0, "barrier-calculus:Hs-not-positive-definite", "eigenvalues {:?} at s={:?} z={:?}", ev, s, z);
                let cond = ev[2] / ev[0];
                meas("Hs z = s", relerr(&hs.mulvec(&z), &s), 1e-13 * cond.max(1.0), ctx)?;
                let zt: Vec<f64> = g.iter().map(|x| -x).collect(); // shadow dual point  z~ = -grad f(s)
                let st: Vec<f64> = any.view().v_grad().iter().map(|x| -x).collect(); // shadow slack s~ = -grad f*(z)
                meas("Hs z~ = s~", relerr(&hs.mulvec(&zt), &st), 1e-9 * cond.max(1.0) / rs.min(rz).min(1.0), ctx)?;
                ctx.outcome("primal-dual scaling");
            }
        }
        ctx.transitions += 8;
        ctx.nontrivial += 1;
        Ok(())
    }
}

/// primal points whose last block is tiny but not zero (|w| = t * bound, t down to 1e-15): the conjugate map
/// must stay finite and accurate all the way to the axis
pub struct SmallW {
    pub kind: NKind,
}
const SMALL_T: [f64; 12] = [1e-3, -1e-3, 1e-6, -1e-6, 1e-8, 1e-9, -1e-9, 1e-10, 1e-12, -1e-12, 1e-15, -1e-15];
impl SmallW {
    fn point(&self, id: u64) -> Vec<f64> {
        let mut d = Digits(id);
        let t = *d.pick(&SMALL_T);
        let base = d.take(NPTS);
        let mut s = nonsym_point(&self.kind, false, base);
        // the lattice point's own last block is replaced by t * (its boundary value)
        let theta_one = {
            // index with theta = 0.5 at the same magnitude / skew gives bound/2 in the last block
            let mut dd = Digits(base);
            let m = dd.take(3);
            let _ = dd.take(6);
            let sk = dd.take(3);
            nonsym_point(&self.kind, false, m + 3 * 1 + 18 * sk)
        };
        let n = s.len();
        match &self.kind {
            NKind::Exp => {
                // exponential cone: tiny slack above the boundary instead (z = y e^{x/y} (1 + |t|))
                s[2] = s[1] * (s[0] / s[1]).exp() * (1.0 + t.abs());
            }
            NKind::Pow(_) => s[2] = 2.0 * theta_one[2] * t,
            NKind::GenPow(a, _) => {
                for j in a.len()..n {
                    s[j] = 2.0 * theta_one[j] * t;
                }
            }
        }
        s
    }
}
impl Space for SmallW {
    fn name(&self) -> String {
        format!("small-last-block-{:?}", self.kind)
    }
    fn size(&self) -> u64 {
        SMALL_T.len() as u64 * NPTS
    }
    fn describe(&self, id: u64) -> Value {
        json!({"cone": format!("{:?}", self.kind), "s": self.point(id)})
    }
    fn bound(&self) -> Value {
        json!({"relative_size_of_last_block": SMALL_T, "base_points": NPTS})
    }
    fn run(&self, id: u64, ctx: &mut Ctx) -> CaseResult {
        let s = self.point(id);
        let k = &self.kind;
        let cs = match k {
            NKind::Exp => ConeSpec::Exp,
            NKind::Pow(a) => ConeSpec::Pow(*a),
            NKind::GenPow(a, d) => ConeSpec::GenPow(a.clone(), *d),
        };
        let ms = margin_primal(&cs, &s);
        if !(ms > 0.0) {
            ctx.outcome("not-interior(skipped)");
            return Ok(());
        }
        let rs = (ms / norm2(&s)).min(1.0);
        let mut any = AnyCone::new(k);
        let g = any.view().v_gradient_primal(&s);
        ensure!(g.iter().all(|v| v.is_finite()), "barrier-calculus:primal-gradient-not-finite", "g(s) = {:?} at s = {:?}", g, s);
        let minus_g: Vec<f64> = g.iter().map(|x| -x).collect();
        ensure!(margin_dual(&cs, &minus_g) > 0.0, "barrier-calculus:minus-primal-gradient-not-in-dual-cone", "s={:?} g={:?}", s, g);
        let back = grad_ad(k, &minus_g);
        let want: Vec<f64> = s.iter().map(|x| -x).collect();
        let e = relerr(&back, &want);
        ctx.measure_max("err/tol:conjugacy(small last block)", e / (1e-6 / rs));
        ensure!(e <= 1e-6 / rs, "barrier-calculus:conjugacy Df*(-g(s))=-s", "error {:e} at s={:?} g={:?}", e, s, g);
        ctx.transitions += 1;
        ctx.nontrivial += 1;
        Ok(())
    }
}

/// membership predicates on interior / exterior / boundary points, and the starting point
pub struct Membership {
    pub kind: NKind,
}
impl Membership {
    fn pts(&self) -> Vec<Vec<f64>> {
        let n = match &self.kind {
            NKind::GenPow(a, d) => a.len() + d,
            _ => 3,
        };
        let vals = [-2.0, -0.5, 0.0, 0.5, 2.0];
        let mut out = vec![];
        let total = 5u64.pow(n as u32);
        for id in 0..total {
            let mut d = Digits(id);
            out.push((0..n).map(|_| *d.pick(&vals)).collect());
        }
        out
    }
}
impl Space for Membership {
    fn name(&self) -> String {
        format!("membership-{:?}", self.kind)
    }
    fn size(&self) -> u64 {
        self.pts().len() as u64
    }
    fn describe(&self, id: u64) -> Value {
        json!({"cone": format!("{:?}", self.kind), "point": self.pts()[id as usize]})
    }
    fn bound(&self) -> Value {
        json!({"points": "all vectors over {-2,-.5,0,.5,2}^n (interior, exterior and boundary)"})
    }
    fn run(&self, id: u64, ctx: &mut Ctx) -> CaseResult {
        let p = &self.pts()[id as usize];
        let cs = match &self.kind {
            NKind::Exp => ConeSpec::Exp,
            NKind::Pow(a) => ConeSpec::Pow(*a),
            NKind::GenPow(a, d) => ConeSpec::GenPow(a.clone(), *d),
        };
        let mut any = AnyCone::new(&self.kind);
        let (mp, md) = (margin_primal(&cs, p), margin_dual(&cs, p));
        // strict interior <=> predicate true; skip points within rounding of the boundary
        if mp.abs() > 1e-12 {
            ensure!(any.view().v_is_primal_feasible(p) == (mp > 0.0), "is_primal_feasible-disagrees", "{:?}: textbook margin {:e}", p, mp);
        }
        if md.abs() > 1e-12 {
            ensure!(any.view().v_is_dual_feasible(p) == (md > 0.0), "is_dual_feasible-disagrees", "{:?}: textbook margin {:e}", p, md);
        }
        if id == 0 {
            // the starting point is central with mu = 1: s = -Df*(z), and it is interior to both cones
            let n = p.len();
            let (mut z, mut s) = (vec![0.0; n], vec![0.0; n]);
            any.cone().unit_initialization(&mut z, &mut s);
            ensure!(margin_primal(&cs, &s) > 0.0 && margin_dual(&cs, &z) > 0.0, "unit_initialization-not-interior", "s={:?} z={:?}", s, z);
            let g = grad_ad(&self.kind, &z);
            let want: Vec<f64> = g.iter().map(|x| -x).collect();
            ensure!(relerr(&s, &want) <= 1e-8, "unit_initialization-not-central", "s={:?} but -Df*(z)={:?}", s, want);
        }
        ctx.transitions += 2;
        ctx.nontrivial += 1;
        Ok(())
    }
}

pub const ASSUMPTIONS: &[&str] = &[
    "the dual barriers are written in the harness from their mathematical definitions on a nested dual-number type (exact derivatives to rounding) and checked equal in value to the crate's barrier_dual",
    "tolerances scale with the relative boundary distance r of the lattice point (1e-13/r for gradients, 1e-12/r^2 for Hessians, 1e-11/r^3 for third derivatives, 1e-6/r for the Newton-based conjugate map); constants fixed from the unchanged tree with >= 100x head-room, the largest observed err/tol ratio is reported in the evidence",
    "the starting point is required central to 1e-8 relative: the exponential cone's hard-coded constants are accurate to about 4e-9, which the property does not forbid",
    "crate-private methods and stored fields are reached through the guarded NonsymView hook (H2c)",
];

pub fn spaces(tier: &str, _seed: u64) -> Vec<Box<dyn Space>> {
    let thorough = tier == "thorough";
    // (exponents within 2% of the ends of (0,1) are in the quick tier too: the Newton start value overshoots most there)
    let mut kinds = vec![NKind::Exp, NKind::Pow(0.5), NKind::Pow(0.25), NKind::Pow(0.1), NKind::Pow(0.01), NKind::Pow(0.99), NKind::GenPow(vec![0.5, 0.5], 1), NKind::GenPow(vec![0.2, 0.3, 0.5], 2)];
    if thorough {
        kinds.extend([NKind::Pow(1e-3), NKind::Pow(0.75), NKind::Pow(0.9), NKind::Pow(1.0 - 1e-3), NKind::GenPow(vec![0.1, 0.9], 3), NKind::GenPow(vec![0.3, 0.3, 0.4], 1), NKind::GenPow(vec![0.1, 0.2, 0.7], 3)]);
    }
    let mut v: Vec<Box<dyn Space>> = vec![];
    for k in kinds {
        v.push(Box::new(Calculus { kind: k.clone() }));
        v.push(Box::new(SmallW { kind: k.clone() }));
        if k_numel(&k) <= 5 {
            v.push(Box::new(Membership { kind: k }));
        }
    }
    v
}
fn k_numel(k: &NKind) -> usize {
    match k {
        NKind::GenPow(a, d) => a.len() + d,
        _ => 3,
    }
}
