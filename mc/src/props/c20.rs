//! C20 — solver output is routed faithfully and says what the solver did.
//! Every case of the planted(+deviation) and tiny-program families is solved with the output sent to
//! a buffer, a stream and a file (and, for a sub-lattice, to the real stdout of a child process);
//! the bytes must agree, parse, and tell the truth about the run.

use super::sweep::{Judge, Planted, Tiny};
use crate::oracle::expected_dropped;
use crate::problem::*;
use crate::solve::*;
use crate::util::*;
use clarabel::io::ConfigurablePrintTarget;
use clarabel::solver::*;
use serde_json::{json, Value};
use std::io::{Read, Seek, SeekFrom, Write};
use std::sync::{Arc, Mutex};

pub trait CaseSource: Sync {
    fn src_name(&self) -> String;
    fn src_size(&self) -> u64;
    fn case(&self, id: u64) -> (Prob, SettingsSpec);
}
impl CaseSource for Planted {
    fn src_name(&self) -> String {
        self.name()
    }
    fn src_size(&self) -> u64 {
        self.size()
    }
    fn case(&self, id: u64) -> (Prob, SettingsSpec) {
        self.case_of(id)
    }
}
impl CaseSource for Tiny {
    fn src_name(&self) -> String {
        self.name()
    }
    fn src_size(&self) -> u64 {
        self.size()
    }
    fn case(&self, id: u64) -> (Prob, SettingsSpec) {
        self.case_of(id)
    }
}

/// second field: the writer accepts at most that many bytes per call (0 = everything). `std::io::Write`
/// allows short writes (pipes, sockets, rate-limited sinks); the caller must re-offer the rest.
struct SharedWriter(Arc<Mutex<Vec<u8>>>, usize);
impl Write for SharedWriter {
    fn write(&mut self, buf: &[u8]) -> std::io::Result<usize> {
        let k = if self.1 == 0 { buf.len() } else { buf.len().min(self.1) };
        self.0.lock().unwrap().extend_from_slice(&buf[..k]);
        Ok(k)
    }
    fn flush(&mut self) -> std::io::Result<()> {
        Ok(())
    }
}

#[derive(Clone, Copy, Debug, PartialEq)]
pub enum Target {
    Buffer,
    Stream,
    /// a stream that takes at most k bytes per write call
    StreamShort(usize),
    File,
}

pub fn solve_printing(p: &Prob, st: &DefaultSettings<f64>, target: Target) -> Result<(Vec<u8>, Run), String> {
    guarded(|| {
        let mut solver = p.build(st.clone());
        match target {
            Target::Buffer => {
                solver.print_to_buffer();
                solver.solve();
                let s = solver.get_print_buffer().unwrap();
                (s.into_bytes(), extract(&solver, vec![]))
            }
            Target::Stream | Target::StreamShort(_) => {
                let shared = Arc::new(Mutex::new(Vec::new()));
                let k = if let Target::StreamShort(k) = target { k } else { 0 };
                solver.print_to_stream(Box::new(SharedWriter(shared.clone(), k)));
                solver.solve();
                let b = shared.lock().unwrap().clone();
                (b, extract(&solver, vec![]))
            }
            Target::File => {
                let path = std::env::temp_dir().join(format!("clmc-c20-{}-{:?}.txt", std::process::id(), std::thread::current().id()));
                let f = std::fs::OpenOptions::new().read(true).write(true).create(true).truncate(true).open(&path).unwrap();
                let mut rd = f.try_clone().unwrap();
                let _ = std::fs::remove_file(&path);
                solver.print_to_file(f);
                solver.solve();
                rd.seek(SeekFrom::Start(0)).unwrap();
                let mut b = vec![];
                rd.read_to_end(&mut b).unwrap();
                (b, extract(&solver, vec![]))
            }
        }
    })
}

/// blank out the one wall-clock field
pub fn mask_time(bytes: &[u8]) -> String {
    let s = String::from_utf8_lossy(bytes).to_string();
    s.lines()
        .map(|l| if l.starts_with("solve time = ") { "solve time = <masked>".to_string() } else { l.to_string() })
        .collect::<Vec<_>>()
        .join("\n")
}

/// independent re-implementation of the documented cone clean-up: drop empty cones, turn
/// singleton SOC/PSD into nonnegative, merge adjacent nonnegative cones
fn collapse(cones: &[ConeSpec]) -> Vec<ConeSpec> {
    let mut out: Vec<ConeSpec> = vec![];
    for c in cones {
        if c.numel() == 0 {
            continue;
        }
        let as_nn = match c {
            ConeSpec::NN(k) => Some(*k),
            ConeSpec::SOC(1) | ConeSpec::PSD(1) => Some(1),
            _ => None,
        };
        match (as_nn, out.last_mut()) {
            (Some(k), Some(ConeSpec::NN(prev))) => *prev += k,
            (Some(k), _) => out.push(ConeSpec::NN(k)),
            (None, _) => out.push(c.clone()),
        }
    }
    out
}

fn parse_num(tok: &str) -> Option<f64> {
    tok.parse::<f64>().ok()
}

/// printed value vs. true value, to the printed precision (`digits` significant decimals after the point)
fn agrees(printed: f64, truth: f64, digits: i32) -> bool {
    if printed.is_nan() || truth.is_nan() {
        return printed.is_nan() && truth.is_nan();
    }
    if printed == truth {
        return true;
    }
    if truth.is_infinite() || printed.is_infinite() {
        return printed == truth;
    }
    let mag = f64::max(printed.abs(), truth.abs());
    (printed - truth).abs() <= 0.6 * 10f64.powi(-digits) * mag + 1e-300
}

pub struct PrintCases {
    pub src: Box<dyn CaseSource>,
    pub stdout_every: u64, // also compare against a child process' real stdout for ids divisible by this (0 = never)
}

impl PrintCases {
    fn judge_text(&self, p: &Prob, ss: &SettingsSpec, st: &DefaultSettings<f64>, text: &str, r: &Run) -> CaseResult {
        judge_output_text(p, ss, st, text, r)
    }
}

/// parse one complete verbose output and compare it with the truth
pub fn judge_output_text(p: &Prob, ss: &SettingsSpec, st: &DefaultSettings<f64>, text: &str, r: &Run) -> CaseResult {
    {
        let lines: Vec<&str> = text.lines().collect();
        let find = |prefix: &str| lines.iter().position(|l| l.trim_start().starts_with(prefix));
        // ---- header: true internal dimensions
        let dropped = expected_dropped(&p.cones, &p.b, 1e20, ss.presolve_enable);
        let nd = dropped.iter().filter(|b| **b).count();
        let val_after = |prefix: &str| -> Result<String, Violation> {
            let i = find(prefix).ok_or_else(|| Violation::new("output-missing-line", format!("no line starting with {:?}", prefix)))?;
            Ok(lines[i].split('=').nth(1).unwrap_or("").trim().to_string())
        };
        ensure!(val_after("variables")? == format!("{}", p.n), "header-variables", "{} vs n={}", val_after("variables")?, p.n);
        ensure!(val_after("constraints")? == format!("{}", p.m - nd), "header-constraints", "{} vs m-dropped={}", val_after("constraints")?, p.m - nd);
        let nnzp = p.p.triu().a.iter().filter(|v| **v != 0.0).count();
        ensure!(val_after("nnz(P)")? == format!("{}", nnzp), "header-nnzP", "{} vs {}", val_after("nnz(P)")?, nnzp);
        let nnza = (0..p.m).filter(|i| !dropped[*i]).map(|i| (0..p.n).filter(|j| p.a.at(i, *j) != 0.0).count()).sum::<usize>();
        ensure!(val_after("nnz(A)")? == format!("{}", nnza), "header-nnzA", "{} vs {}", val_after("nnz(A)")?, nnza);
        // cones after collapse and reduction
        let mut reduced_cones = vec![];
        {
            let col = collapse(&p.cones);
            // map dropped rows onto the collapsed list
            let mut off = 0;
            for c in &col {
                let k = c.numel();
                if let ConeSpec::NN(_) = c {
                    let keep = (off..off + k).filter(|i| !dropped[*i]).count();
                    if keep > 0 {
                        reduced_cones.push(ConeSpec::NN(keep));
                    }
                } else {
                    reduced_cones.push(c.clone());
                }
                off += k;
            }
        }
        ensure!(val_after("cones (total)")? == format!("{}", reduced_cones.len()), "header-cone-total", "{} vs {:?}", val_after("cones (total)")?, reduced_cones);
        for (label, pred) in [
            ("Zero", (|c: &ConeSpec| matches!(c, ConeSpec::Zero(_))) as fn(&ConeSpec) -> bool),
            ("Nonnegative", |c: &ConeSpec| matches!(c, ConeSpec::NN(_))),
            ("SecondOrder", |c: &ConeSpec| matches!(c, ConeSpec::SOC(_))),
            ("Exponential", |c: &ConeSpec| matches!(c, ConeSpec::Exp)),
            ("Power", |c: &ConeSpec| matches!(c, ConeSpec::Pow(_))),
            ("GenPower", |c: &ConeSpec| matches!(c, ConeSpec::GenPow(_, _))),
            ("PSDTriangle", |c: &ConeSpec| matches!(c, ConeSpec::PSD(_))),
        ] {
            let dims: Vec<usize> = reduced_cones.iter().filter(|c| pred(c)).map(|c| c.numel()).collect();
            let line = lines.iter().find(|l| l.trim_start().starts_with(':') && l.contains(&format!(" {} =", label)));
            if dims.is_empty() {
                ensure!(line.is_none(), "header-cone-type-listed-but-absent", "{}: {:?}", label, line);
            } else {
                let line = line.ok_or_else(|| Violation::new("header-cone-type-missing", label.to_string()))?;
                let want = if dims.len() == 1 {
                    format!("= {},  numel = {}", dims.len(), dims[0])
                } else if dims.len() <= 5 {
                    format!("= {},  numel = ({})", dims.len(), dims.iter().map(|d| d.to_string()).collect::<Vec<_>>().join(","))
                } else {
                    format!("= {},  numel = ({},...,{})", dims.len(), dims[..4].iter().map(|d| d.to_string()).collect::<Vec<_>>().join(","), dims[dims.len() - 1])
                };
                ensure!(line.ends_with(&want), "header-cone-dims", "{:?} does not end with {:?}", line, want);
            }
        }
        match find("presolve: removed") {
            Some(i) => ensure!(nd > 0 && lines[i].trim() == format!("presolve: removed {} constraints", nd), "header-presolve-count", "{:?} vs dropped {}", lines[i], nd),
            None => ensure!(nd == 0, "header-presolve-line-missing", "dropped {}", nd),
        }
        // ---- settings lines
        let tl = if st.time_limit.is_infinite() { "Inf".to_string() } else { format!("{:?}", st.time_limit) };
        let want = format!("  max iter = {}, time limit = {},  max step = {:.3}", st.max_iter, tl, st.max_step_fraction);
        ensure!(lines.contains(&want.as_str()), "settings-line-maxiter", "missing {:?}", want);
        let want = format!("  tol_feas = {:.1e}, tol_gap_abs = {:.1e}, tol_gap_rel = {:.1e},", st.tol_feas, st.tol_gap_abs, st.tol_gap_rel);
        ensure!(lines.contains(&want.as_str()), "settings-line-tols", "missing {:?}", want);
        let onoff = |b: bool| if b { "on" } else { "false" };
        // every settings line in full, from the settings object the solver was given
        let wants = [
            format!("  static reg : {}, ϵ1 = {:.1e}, ϵ2 = {:.1e}", onoff(st.static_regularization_enable), st.static_regularization_constant, st.static_regularization_proportional),
            format!("  dynamic reg: {}, ϵ = {:.1e}, δ = {:.1e}", onoff(st.dynamic_regularization_enable), st.dynamic_regularization_eps, st.dynamic_regularization_delta),
            format!("  iter refine: {}, reltol = {:.1e}, abstol = {:.1e},", onoff(st.iterative_refinement_enable), st.iterative_refinement_reltol, st.iterative_refinement_abstol),
            format!("               max iter = {}, stop ratio = {:.1}", st.iterative_refinement_max_iter, st.iterative_refinement_stop_ratio),
            format!("  equilibrate: {}, min_scale = {:.1e}, max_scale = {:.1e}", onoff(st.equilibrate_enable), st.equilibrate_min_scaling, st.equilibrate_max_scaling),
            format!("               max iter = {}", st.equilibrate_max_iter),
        ];
        for want in &wants {
            ensure!(lines.contains(&want.as_str()), "settings-line", "missing {:?} in the header:\n{}", want, lines.iter().filter(|l| l.starts_with("  ") || l.starts_with("   ")).cloned().collect::<Vec<_>>().join("\n"));
        }
        let la = lines.iter().find(|l| l.starts_with("  linear algebra:")).ok_or_else(|| Violation::new("output-missing-line", "linear algebra"))?;
        // "auto" may resolve to any compiled-in backend: the truth is what the solver reports it used
        let threads = match r.info.linsolver.threads {
            0 => String::new(),
            1 => "(1 thread)".to_string(),
            k => format!("({} threads)", k),
        };
        let want = format!("  linear algebra: direct / {}, precision: 64 bit {}", r.info.linsolver.name, threads);
        ensure!(*la == want.as_str(), "settings-line-linear-algebra", "{:?} vs {:?}", la, want);
        if ss.method != "auto" {
            ensure!(r.info.linsolver.name == ss.method, "backend-differs-from-request", "{} requested, {} used", ss.method, r.info.linsolver.name);
        }
        // ---- the table
        let h = find("iter    pcost").ok_or_else(|| Violation::new("output-missing-line", "table header"))?;
        let dashes: Vec<usize> = lines.iter().enumerate().filter(|(_, l)| l.starts_with("------------------------------------------------------------------------------")).map(|(i, _)| i).collect();
        let d1 = *dashes.iter().find(|&&i| i > h).ok_or_else(|| Violation::new("output-missing-line", "rule under header"))?;
        let d2 = *dashes.iter().find(|&&i| i > d1).ok_or_else(|| Violation::new("output-missing-line", "closing rule"))?;
        let rows = &lines[d1 + 1..d2];
        ensure!(!rows.is_empty(), "table-empty", "");
        let mut prev = 0i64;
        let mut last: Vec<&str> = vec![];
        for (k, row) in rows.iter().enumerate() {
            let toks: Vec<&str> = row.split_whitespace().collect();
            ensure!(toks.len() == 9, "table-row-shape", "row {:?} has {} fields", row, toks.len());
            let it: i64 = toks[0].parse().map_err(|_| Violation::new("table-iter-not-a-number", row.to_string()))?;
            if k == 0 {
                ensure!(it == 0, "table-iter-does-not-start-at-0", "{:?}", row);
                ensure!(toks[8] == "------", "table-first-row-step", "{:?}", row);
            } else {
                ensure!(it >= prev, "table-iter-decreases", "{} after {}", it, prev);
            }
            for t in &toks[1..8] {
                ensure!(parse_num(t).is_some(), "table-field-not-a-number", "{:?} in {:?}", t, row);
            }
            prev = it;
            last = toks;
        }
        ensure!(prev == r.iterations as i64, "table-last-iter-differs-from-solution", "last row iter {} vs solution.iterations {}", prev, r.iterations);
        // ---- last row vs. the returned solution
        let infeas = r.obj_val.is_nan();
        let (pc, dc) = (parse_num(last[1]).unwrap(), parse_num(last[2]).unwrap());
        if !infeas {
            ensure!(agrees(pc, r.obj_val, 4), "last-row-pcost-differs-from-solution", "printed {} vs obj_val {} ({:?})", last[1], r.obj_val, r.status);
            ensure!(agrees(dc, r.obj_val_dual, 4), "last-row-dcost-differs-from-solution", "printed {} vs obj_val_dual {} ({:?})", last[2], r.obj_val_dual, r.status);
        }
        ensure!(agrees(parse_num(last[4]).unwrap(), r.r_prim, 2), "last-row-pres-differs-from-solution", "printed {} vs r_prim {:e} ({:?})", last[4], r.r_prim, r.status);
        ensure!(agrees(parse_num(last[5]).unwrap(), r.r_dual, 2), "last-row-dres-differs-from-solution", "printed {} vs r_dual {:e} ({:?})", last[5], r.r_dual, r.status);
        // ---- footer
        let want = format!("Terminated with status = {}", status_name(r.status));
        ensure!(lines.get(d2 + 1) == Some(&want.as_str()), "footer-status", "{:?} vs {:?}", lines.get(d2 + 1), want);
        ensure!(lines.get(d2 + 2).map(|l| l.starts_with("solve time = ")).unwrap_or(false), "footer-time-line", "{:?}", lines.get(d2 + 2));
        ensure!(lines.len() == d2 + 3, "output-trailing-lines", "{:?}", &lines[d2 + 3..]);
        Ok(())
    }
}

impl Space for PrintCases {
    fn name(&self) -> String {
        format!("print-{}", self.src.src_name())
    }
    fn size(&self) -> u64 {
        self.src.src_size()
    }
    fn describe(&self, id: u64) -> Value {
        let (p, ss) = self.src.case(id);
        json!({"problem": p.to_json(), "settings": ss.to_json(), "targets": ["buffer","stream","file", "stdout (sub-lattice)"], "verbose": [true,false]})
    }
    fn bound(&self) -> Value {
        json!({"source": self.src.src_name(), "stdout_child_every": self.stdout_every})
    }
    fn debug(&self, id: u64) -> String {
        let (p, ss) = self.src.case(id);
        let mut st = ss.build();
        st.verbose = true;
        match solve_printing(&p, &st, Target::Buffer) {
            Ok((b, r)) => format!("{}\n{:?} obj {} {} r {} {} iters {}", String::from_utf8_lossy(&b), r.status, r.obj_val, r.obj_val_dual, r.r_prim, r.r_dual, r.iterations),
            Err(e) => e,
        }
    }
    fn run(&self, id: u64, ctx: &mut Ctx) -> CaseResult {
        let (p, ss) = self.src.case(id);
        let mut st = ss.build();
        // verbose off: nothing anywhere
        st.verbose = false;
        for t in [Target::Buffer, Target::Stream, Target::File] {
            let Ok((b, _)) = solve_printing(&p, &st, t) else {
                ctx.outcome("panic(skipped: judged by C04)");
                return Ok(());
            };
            ensure!(b.is_empty(), "output-with-verbose-off", "{:?} received {} bytes: {:?}", t, b.len(), String::from_utf8_lossy(&b[..b.len().min(80)]));
        }
        st.verbose = true;
        let (bb, r) = solve_printing(&p, &st, Target::Buffer).map_err(|e| Violation::new("panic-with-verbose-on-only", e))?;
        let (sb, rs) = solve_printing(&p, &st, Target::Stream).map_err(|e| Violation::new("panic-with-verbose-on-only", e))?;
        let (fb, rf) = solve_printing(&p, &st, Target::File).map_err(|e| Violation::new("panic-with-verbose-on-only", e))?;
        ctx.transitions += 6;
        let (tb, ts, tf) = (mask_time(&bb), mask_time(&sb), mask_time(&fb));
        ensure!(tb == ts, "buffer-and-stream-differ", "buffer:\n{}\nstream:\n{}", tb, ts);
        // a stream with short writes (1 and 7 bytes per call, alternating with the case id) receives the same bytes
        let k = if id % 2 == 0 { 1 } else { 7 };
        let (kb, _) = solve_printing(&p, &st, Target::StreamShort(k)).map_err(|e| Violation::new("panic-with-verbose-on-only", e))?;
        ensure!(mask_time(&kb) == tb, "buffer-and-short-write-stream-differ", "stream accepting {} byte(s) per write received {} bytes, buffer {}", k, kb.len(), bb.len());
        ensure!(tb == tf, "buffer-and-file-differ", "buffer:\n{}\nfile:\n{}", tb, tf);
        ensure!(r.status == rs.status && r.status == rf.status && r.obj_val.to_bits() == rs.obj_val.to_bits() && r.obj_val.to_bits() == rf.obj_val.to_bits(), "result-depends-on-print-target", "");
        ensure!(!bb.is_empty(), "no-output-with-verbose-on", "");
        self.judge_text(&p, &ss, &st, &tb, &r)?;
        if self.stdout_every > 0 && id % self.stdout_every == 0 {
            // real stdout of a child process running the same case
            let exe = std::env::current_exe().map_err(|e| Violation::new("machinery-no-exe", format!("{}", e)))?;
            let out = std::process::Command::new(exe)
                .args(["c20child", &self.name(), &id.to_string()])
                .output()
                .map_err(|e| Violation::new("machinery-child-failed", format!("{}", e)))?;
            ensure!(out.status.success(), "machinery-child-failed", "{:?}", out.status);
            let tc = mask_time(&out.stdout);
            ensure!(tc == tb, "stdout-and-buffer-differ", "stdout:\n{}\nbuffer:\n{}", tc, tb);
            ctx.outcome("stdout-child-compared");
        }
        ctx.nontrivial += 1;
        ctx.outcome(status_name(r.status));
        Ok(())
    }
}

// ------------------------------------------------------------------
// target histories: the print target is an object with a history (configure, re-configure, solve, re-solve,
// verbose toggled between solves); every sequence of operations up to a length, against a plain model
// ------------------------------------------------------------------

#[derive(Clone, Copy, Debug, PartialEq)]
enum TOp {
    Buffer,
    Stream,
    File,
    Sink,
    ToggleVerbose,
    Solve,
}
const TOPS: [TOp; 6] = [TOp::Solve, TOp::Buffer, TOp::Stream, TOp::File, TOp::ToggleVerbose, TOp::Sink];

enum Cur {
    Sink,
    Buffer(Vec<u8>),
    Stream(usize),
    File(usize),
}

pub struct TargetHistories {
    pub p: Prob,
    pub ss: SettingsSpec,
    pub len: u32,
    pub label: String,
}

fn temp_file() -> (std::fs::File, std::fs::File) {
    static N: std::sync::atomic::AtomicU64 = std::sync::atomic::AtomicU64::new(0);
    let k = N.fetch_add(1, std::sync::atomic::Ordering::Relaxed);
    let path = std::env::temp_dir().join(format!("clmc-c20h-{}-{}.txt", std::process::id(), k));
    let f = std::fs::OpenOptions::new().read(true).write(true).create(true).truncate(true).open(&path).unwrap();
    let rd = f.try_clone().unwrap();
    let _ = std::fs::remove_file(&path);
    (f, rd)
}

impl TargetHistories {
    fn ops(&self, id: u64) -> Vec<TOp> {
        let mut d = Digits(id);
        (0..self.len).map(|_| *d.pick(&TOPS)).collect()
    }
    /// reference: the log and result of the k-th solve (k = 1, 2, ...) of one solver object, each solve
    /// captured by a stream configured immediately before it
    fn reference(&self, nsolves: usize) -> Result<Vec<(Vec<u8>, SolverStatus, u64, u32)>, String> {
        guarded(|| {
            let mut st = self.ss.build();
            st.verbose = true;
            let mut solver = self.p.build(st);
            let mut out = vec![];
            for _ in 0..nsolves {
                let shared = Arc::new(Mutex::new(Vec::new()));
                solver.print_to_stream(Box::new(SharedWriter(shared.clone(), 0)));
                solver.solve();
                let b = shared.lock().unwrap().clone();
                out.push((b, solver.solution.status, solver.solution.obj_val.to_bits(), solver.solution.iterations));
            }
            out
        })
    }
}

impl Space for TargetHistories {
    fn name(&self) -> String {
        format!("target-histories-len{}-{}", self.len, self.label)
    }
    fn size(&self) -> u64 {
        (TOPS.len() as u64).pow(self.len)
    }
    fn describe(&self, id: u64) -> Value {
        json!({"problem": self.p.to_json(), "settings": self.ss.to_json(), "initial": "verbose on, print_to_sink", "ops": self.ops(id).iter().map(|o| format!("{:?}", o)).collect::<Vec<_>>()})
    }
    fn bound(&self) -> Value {
        json!({"alphabet": TOPS.iter().map(|o| format!("{:?}", o)).collect::<Vec<_>>(), "length": self.len, "checked": "after every operation"})
    }
    fn run(&self, id: u64, ctx: &mut Ctx) -> CaseResult {
        let ops = self.ops(id);
        let nsolves = ops.iter().filter(|o| **o == TOp::Solve).count();
        let refs = self.reference(nsolves).map_err(|e| Violation::new("panic-in-reference-re-solves", e))?;
        for (b, ..) in &refs {
            ensure!(!b.is_empty(), "no-output-with-verbose-on", "reference stream received nothing");
        }
        let mut st = self.ss.build();
        st.verbose = true;
        let mut verbose = true;
        let res = guarded(|| -> CaseResult {
            let mut solver = self.p.build(st);
            solver.print_to_sink();
            let mut cur = Cur::Sink;
            let mut streams: Vec<(Arc<Mutex<Vec<u8>>>, Vec<u8>)> = vec![];
            let mut files: Vec<(std::fs::File, Vec<u8>)> = vec![];
            let mut k = 0usize;
            for (i, op) in ops.iter().enumerate() {
                match op {
                    TOp::Buffer => {
                        solver.print_to_buffer();
                        cur = Cur::Buffer(vec![]);
                    }
                    TOp::Stream => {
                        let shared = Arc::new(Mutex::new(Vec::new()));
                        solver.print_to_stream(Box::new(SharedWriter(shared.clone(), 0)));
                        streams.push((shared, vec![]));
                        cur = Cur::Stream(streams.len() - 1);
                    }
                    TOp::File => {
                        let (f, rd) = temp_file();
                        solver.print_to_file(f);
                        files.push((rd, vec![]));
                        cur = Cur::File(files.len() - 1);
                    }
                    TOp::Sink => {
                        solver.print_to_sink();
                        cur = Cur::Sink;
                    }
                    TOp::ToggleVerbose => {
                        verbose = !verbose;
                        solver.settings.verbose = verbose;
                    }
                    TOp::Solve => {
                        solver.solve();
                        let (log, status, obj, iters) = &refs[k];
                        k += 1;
                        ensure!(
                            solver.solution.status == *status && solver.solution.obj_val.to_bits() == *obj && solver.solution.iterations == *iters,
                            "result-depends-on-print-target",
                            "solve #{} after {:?}: {:?} obj {:e} iters {} vs reference {:?} {:e} {}",
                            k,
                            &ops[..i],
                            solver.solution.status,
                            solver.solution.obj_val,
                            solver.solution.iterations,
                            status,
                            f64::from_bits(*obj),
                            iters
                        );
                        if verbose {
                            match &mut cur {
                                Cur::Sink => {}
                                Cur::Buffer(e) => e.extend_from_slice(log),
                                Cur::Stream(j) => streams[*j].1.extend_from_slice(log),
                                Cur::File(j) => files[*j].1.extend_from_slice(log),
                            }
                        }
                    }
                }
                // every store that exists, after every operation
                let hist = &ops[..=i];
                match &cur {
                    Cur::Buffer(e) => match solver.get_print_buffer() {
                        Ok(s) => ensure!(mask_time(s.as_bytes()) == mask_time(e), "buffer-content-differs-from-its-solves", "after {:?}: buffer holds\n{}\nexpected\n{}", hist, mask_time(s.as_bytes()), mask_time(e)),
                        Err(e) => return Err(Violation::new("buffer-configured-but-not-retrievable", format!("after {:?}: {}", hist, e))),
                    },
                    _ => ensure!(solver.get_print_buffer().is_err(), "buffer-retrievable-when-not-configured", "after {:?}", hist),
                }
                for (j, (sh, e)) in streams.iter().enumerate() {
                    let got = sh.lock().unwrap().clone();
                    ensure!(mask_time(&got) == mask_time(e), "stream-content-differs-from-its-solves", "after {:?}: stream #{} holds {} bytes, expected {}:\n{}", hist, j, got.len(), e.len(), mask_time(&got));
                }
                for (j, (rd, e)) in files.iter_mut().enumerate() {
                    rd.seek(SeekFrom::Start(0)).unwrap();
                    let mut got = vec![];
                    rd.read_to_end(&mut got).unwrap();
                    ensure!(mask_time(&got) == mask_time(e), "file-content-differs-from-its-solves", "after {:?}: file #{} holds {} bytes, expected {}:\n{}", hist, j, got.len(), e.len(), mask_time(&got));
                }
            }
            Ok(())
        });
        ctx.transitions += ops.len() as u64;
        match res {
            Err(e) => return Err(Violation::new("panic-in-target-history", e)),
            Ok(r) => r?,
        }
        if nsolves > 0 {
            ctx.nontrivial += 1;
        }
        let same = refs.windows(2).all(|w| mask_time(&w[0].0) == mask_time(&w[1].0));
        ctx.outcome(&format!("solves={} re-solve-logs-{}", nsolves, if nsolves < 2 { "n/a" } else if same { "identical" } else { "differ" }));
        Ok(())
    }
}

/// child mode: solve one case with the default print target (stdout) and verbose on
pub fn child(space_name: &str, id: u64) -> i32 {
    // the tier is inherited from the parent through the environment: spaces of the two tiers can share a name
    // but not a decoding
    let first = std::env::var("VERIF_TIER").unwrap_or_else(|_| "quick".into());
    let other = if first == "thorough" { "quick" } else { "thorough" };
    for tier in [first.as_str(), other] {
        for s in spaces_typed(tier) {
            if s.name() == space_name {
                let (p, ss) = s.src.case(id);
                let mut st = ss.build();
                st.verbose = true;
                let mut solver = p.build(st);
                solver.solve();
                return 0;
            }
        }
    }
    3
}

pub const ASSUMPTIONS: &[&str] = &[
    "the one wall-clock field (`solve time = ...`) is masked before byte comparison",
    "printed figures are compared numerically to the printed precision (0.6 units of the last printed digit)",
    "the truth for the header (internal dimensions, collapsed/reduced cone list, dropped rows) is computed by the oracle from the user's data",
    "statuses that need injected faults (MaxTime etc.) are covered by the fault-schedule spaces; the sweep here reaches the statuses that arise naturally",
    "stdout is compared for a sub-lattice of cases through a child process (process spawn cost)",
];

fn spaces_typed(tier: &str) -> Vec<PrintCases> {
    use ConeSpec::*;
    let thorough = tier == "thorough";
    let mut v = vec![];
    let s0 = vec![SettingsSpec::default()];
    let mut svar = SettingsSpec::lattice(1);
    svar.push(SettingsSpec { max_iter: 0, ..Default::default() });
    svar.push(SettingsSpec { max_iter: 1, ..Default::default() });
    svar.push(SettingsSpec { max_iter: 3, ..Default::default() });
    let lists: Vec<(Vec<ConeSpec>, usize)> = vec![
        (vec![NN(3), SOC(3)], 3),
        (vec![Zero(1), NN(2), Exp], 3),
        (vec![GenPow(vec![0.2, 0.3, 0.5], 2), Zero(1)], 3),
        (vec![PSD(2), NN(2)], 2),
        (vec![NN(2), SOC(1), PSD(1), Zero(1), NN(0)], 2),
        (vec![SOC(2), SOC(2), SOC(2), SOC(2), SOC(2), SOC(2)], 2),
    ];
    for (l, n) in &lists {
        let xids: Vec<u64> = if thorough { (0..3u64.pow(*n as u32)).collect() } else { vec![0, 5] };
        v.push(PrintCases {
            src: Box::new(Planted::new(l.clone(), *n, s0.clone(), Judge::C04, 1, xids.clone(), "default")),
            stdout_every: 2003,
        });
        v.push(PrintCases {
            src: Box::new(Planted::new(l.clone(), *n, svar.clone(), Judge::C04, 0, xids, "S<=1+maxiter")),
            stdout_every: 211,
        });
    }
    // every printed setting at a distinct non-default value (a header that prints one field for another shows)
    {
        let odd = vec![SettingsSpec { odd_print_values: true, ..Default::default() }, SettingsSpec { odd_print_values: true, static_reg: false, iterative_refinement: false, ..Default::default() }];
        v.push(PrintCases { src: Box::new(Planted::new(vec![NN(3), SOC(3)], 3, odd.clone(), Judge::C04, 0, vec![5], "odd-settings")), stdout_every: 7 });
        v.push(PrintCases { src: Box::new(Planted::new(vec![Zero(1), NN(2), Exp], 3, odd, Judge::C04, 0, vec![5], "odd-settings")), stdout_every: 0 });
    }
    // header shapes: the per-type dimension list is abbreviated beyond five cones; every count around that
    // threshold, with sizes arranged so that each listed position and the final one are distinguishable
    {
        let soc_a = [2usize, 3, 4, 2, 3, 4, 5, 3, 6];
        let soc_b = [5usize, 4, 3, 2, 2, 3, 4, 5, 2];
        let psd = [1usize, 2, 1, 2, 2, 1, 2, 1, 2];
        let mut shapes: Vec<Vec<ConeSpec>> = vec![];
        for k in 4..=9 {
            shapes.push(soc_a[..k].iter().map(|d| SOC(*d)).collect());
            shapes.push(soc_b[..k].iter().map(|d| SOC(*d)).collect());
        }
        for k in [5, 6, 7] {
            shapes.push(psd[..k].iter().map(|d| PSD(*d)).collect());
        }
        shapes.push(vec![GenPow(vec![0.5, 0.5], 1), GenPow(vec![0.2, 0.3, 0.5], 1), GenPow(vec![0.5, 0.5], 2), GenPow(vec![0.5, 0.5], 1), GenPow(vec![0.5, 0.5], 1), GenPow(vec![0.5, 0.5], 3), GenPow(vec![0.2, 0.3, 0.5], 2)]);
        shapes.push(vec![SOC(2), NN(1), SOC(3), Exp, SOC(4), Zero(1), SOC(2), SOC(3), Pow(0.5), SOC(4), SOC(5)]);
        for l in shapes {
            v.push(PrintCases { src: Box::new(Planted::new(l, 2, s0.clone(), Judge::C04, 0, vec![5], "default")), stdout_every: 0 });
        }
    }
    // presolve reductions present: rows with an infinite bound
    for (l, n) in &lists[..2] {
        v.push(PrintCases {
            src: Box::new(Planted::new(l.clone(), *n, svar.clone(), Judge::C04, 0, vec![0, 5], "S<=1+maxiter").with_inf_rows()),
            stdout_every: 211,
        });
    }
    v.push(PrintCases {
        src: Box::new(Planted::new(vec![NN(2), SOC(1), PSD(1), Zero(1), NN(0)], 2, s0.clone(), Judge::C04, 1, vec![0, 5], "default").with_inf_rows()),
        stdout_every: 0,
    });
    // tiny programs reach the degenerate verdicts (InsufficientProgress, NumericalError, Almost*)
    for l in [vec![NN(2)], vec![SOC(2)], vec![Zero(1), NN(1)]] {
        v.push(PrintCases {
            src: Box::new(Tiny::new(l, 2, if thorough { SettingsSpec::lattice(1) } else { s0.clone() }, Judge::C04, "default")),
            stdout_every: 0,
        });
    }
    for l in [vec![Exp], vec![SOC(3)], vec![NN(3)]] {
        v.push(PrintCases {
            src: Box::new(Tiny::new(l, 1, s0.clone(), Judge::C04, "default")),
            stdout_every: 0,
        });
    }
    v
}

pub fn spaces(tier: &str, _seed: u64) -> Vec<Box<dyn Space>> {
    let mut v: Vec<Box<dyn Space>> = spaces_typed(tier).into_iter().map(|s| Box::new(s) as Box<dyn Space>).collect();
    // statuses that only faults can produce on demand (NumericalError, roll-backs, strategy switches)
    let (k, d) = if tier == "thorough" { (6, 3) } else { (4, 2) };
    v.push(Box::new(super::faults::Schedules::new(k, d, super::faults::FJudge::C20)));
    // the print target as an object with a history
    {
        use ConeSpec::*;
        let s0 = vec![SettingsSpec::default()];
        let len = if tier == "thorough" { 7 } else { 5 };
        let (p, ss) = Planted::new(vec![NN(3), SOC(3)], 3, s0.clone(), Judge::C04, 0, vec![5], "default").case_of(0);
        v.push(Box::new(TargetHistories { p, ss, len, label: "NN3-SOC3".into() }));
        let (p, ss) = Planted::new(vec![Zero(1), NN(2), Exp], 3, s0, Judge::C04, 0, vec![5], "default").with_inf_rows().case_of(0);
        v.push(Box::new(TargetHistories { p, ss, len: len - 1, label: "Z1-NN2-Exp-infrows".into() }));
    }
    v
}
