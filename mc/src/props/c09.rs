//! C09 — infinite bounds are removed and restored transparently.
//! (inputs) every placement of infinity-like right-hand sides over cone lists, presolve on/off;
//! (histories) every sequence of set_infinity/default_infinity/build/solve up to a depth.
//! Oracle: the set of rows to drop is computed independently; the kept part must coincide
//! bit for bit with a solver built on the hand-reduced, hand-capped problem.

use super::sweep::a_pattern;
use crate::dense::*;
use crate::oracle::*;
use crate::problem::*;
use crate::solve::*;
use crate::util::*;
use clarabel::solver::*;
use serde_json::{json, Value};

fn settings(presolve: bool, equil: bool) -> SettingsSpec {
    SettingsSpec {
        presolve_enable: presolve,
        equilibrate_enable: equil,
        max_iter: 50,
        ..Default::default()
    }
}

/// delete the dropped rows by hand, cap the rest at `bound`
pub fn hand_reduce(p: &Prob, dropped: &[bool], bound: f64) -> Prob {
    let keep: Vec<usize> = (0..p.m).filter(|i| !dropped[*i]).collect();
    let rows: Vec<Vec<f64>> = keep.iter().map(|&i| (0..p.n).map(|j| p.a.at(i, j)).collect()).collect();
    let a = Dense::from_rows(&rows, p.n);
    let b: Vec<f64> = keep.iter().map(|&i| f64::min(p.b[i], bound)).collect();
    let mut cones = vec![];
    let mut off = 0;
    for c in &p.cones {
        let k = c.numel();
        let nk = (off..off + k).filter(|i| !dropped[*i]).count();
        if nk == k {
            cones.push(c.clone());
        } else {
            // only nonnegative(-like) cones lose rows
            if nk > 0 {
                cones.push(ConeSpec::NN(nk));
            }
        }
        off += k;
    }
    Prob {
        n: p.n,
        m: keep.len(),
        p: p.p.clone(),
        p_full: p.p_full,
        q: p.q.clone(),
        a,
        b,
        cones,
    }
}

fn bits_eq(a: &[f64], b: &[f64]) -> bool {
    a.len() == b.len() && a.iter().zip(b).all(|(x, y)| x.to_bits() == y.to_bits())
}

/// the central differential oracle
fn judge(p: &Prob, presolve: bool, equil: bool, bound: f64, r: &Run, reference: &Run, ctx: &mut Ctx) -> CaseResult {
    let dropped = expected_dropped(&p.cones, &p.b, bound, presolve);
    let nd = dropped.iter().filter(|b| **b).count();
    ensure!(r.s.len() == p.m && r.z.len() == p.m && r.x.len() == p.n, "result-lengths", "s {} z {} x {} for m={} n={}", r.s.len(), r.z.len(), r.x.len(), p.m, p.n);
    ensure!(r.internal_m == p.m - nd, "wrong-number-of-rows-dropped", "internal m = {} but oracle drops {} of {} (b={:?} cones {:?})", r.internal_m, nd, p.m, p.b, p.cones);
    let mut ks = vec![];
    let mut kz = vec![];
    for i in 0..p.m {
        if dropped[i] {
            ensure!(r.z[i] == 0.0, "dropped-row-z-nonzero", "row {} z={}", i, r.z[i]);
            ensure!(r.s[i] == bound, "dropped-row-s-not-bound", "row {} s={} bound={}", i, r.s[i], bound);
        } else {
            ks.push(r.s[i]);
            kz.push(r.z[i]);
        }
    }
    ensure!(r.status == reference.status, "status-differs-from-hand-reduced", "{:?} vs {:?}", r.status, reference.status);
    ensure!(r.iterations == reference.iterations, "iterations-differ-from-hand-reduced", "{} vs {}", r.iterations, reference.iterations);
    ensure!(
        bits_eq(&r.x, &reference.x) && bits_eq(&ks, &reference.s) && bits_eq(&kz, &reference.z),
        "solution-differs-from-hand-reduced",
        "x {:?} vs {:?}; s {:?} vs {:?}; z {:?} vs {:?}",
        r.x,
        reference.x,
        ks,
        reference.s,
        kz,
        reference.z
    );
    ensure!(
        r.obj_val.to_bits() == reference.obj_val.to_bits() && r.obj_val_dual.to_bits() == reference.obj_val_dual.to_bits(),
        "objective-differs-from-hand-reduced",
        "{} {} vs {} {}",
        r.obj_val,
        r.obj_val_dual,
        reference.obj_val,
        reference.obj_val_dual
    );
    // and the kept part is a certified solution of the hand-reduced problem when it claims so
    let red = hand_reduce(p, &dropped, bound);
    let ss = settings(false, equil);
    judge_c01(&red, &ss, reference, bound)?;
    if nd > 0 {
        ctx.nontrivial += 1;
        ctx.outcome(&format!("dropped-{}-{}", nd, status_name(r.status)));
    } else {
        ctx.outcome(&format!("none-dropped-{}", status_name(r.status)));
    }
    Ok(())
}

// ----------------------------------------------------------------------
// inputs
// ----------------------------------------------------------------------
pub struct Placements {
    pub cones: Vec<ConeSpec>,
    pub n: usize,
}
const BOUND: f64 = 1e20;
fn bmenu() -> Vec<f64> {
    // the last entry is "minus infinity": an unsatisfiable row, which must never be treated as vacuous
    vec![1.0, BOUND * (1.0 - 1e-6), BOUND, 10.0 * BOUND, 1e30, -10.0 * BOUND]
}

impl Placements {
    fn m(&self) -> usize {
        cones_numel(&self.cones)
    }
    fn decode(&self, id: u64) -> (Prob, bool, bool) {
        let (n, m) = (self.n, self.m());
        let mut d = Digits(id);
        let presolve = d.take(2) == 0;
        let equil = d.take(2) == 0;
        let a_which = d.take(3) as usize;
        let bm = bmenu();
        let bsel: Vec<f64> = (0..m).map(|_| *d.pick(&bm)).collect();
        // planted: b = A x* + s* for the finite rows, then overwrite the selected rows
        let a = a_pattern(m, n, a_which);
        let x: Vec<f64> = (0..n).map(|j| if j % 2 == 0 { 1.0 } else { -1.0 }).collect();
        let ax = a.mulvec(&x);
        let mut s = vec![];
        let mut z = vec![];
        for c in &self.cones {
            s.extend(c.interior_point(0));
            z.extend(c.interior_point(0));
        }
        let b: Vec<f64> = (0..m).map(|i| if bsel[i] == 1.0 { ax[i] + s[i] } else { bsel[i] }).collect();
        let p = Dense::eye(n);
        let atz = a.tmulvec(&z);
        let q: Vec<f64> = (0..n).map(|j| -x[j] - atz[j]).collect();
        (
            Prob {
                n,
                m,
                p,
                p_full: false,
                q,
                a,
                b,
                cones: self.cones.clone(),
            },
            presolve,
            equil,
        )
    }
}

impl Space for Placements {
    fn name(&self) -> String {
        format!("placements-n{}-[{}]", self.n, self.cones.iter().map(|c| c.tag()).collect::<Vec<_>>().join(","))
    }
    fn size(&self) -> u64 {
        2 * 2 * 3 * (bmenu().len() as u64).pow(self.m() as u32)
    }
    fn describe(&self, id: u64) -> Value {
        let (p, presolve, equil) = self.decode(id);
        json!({"problem": p.to_json(), "presolve_enable": presolve, "equilibrate_enable": equil, "infinity_bound": BOUND})
    }
    fn bound(&self) -> Value {
        json!({"b_menu": bmenu(), "rows": self.m(), "presolve": "on/off", "equilibrate": "on/off", "A_patterns": 3})
    }
    fn run(&self, id: u64, ctx: &mut Ctx) -> CaseResult {
        let (p, presolve, equil) = self.decode(id);
        let ss = settings(presolve, equil);
        let r = match run_solver(&p, &ss, false) {
            Ok(r) => r,
            Err(e) => return Err(Violation::new(format!("panic:{}", super::sweep::panic_site(&e)), e)),
        };
        ctx.transitions += 2;
        let dropped = expected_dropped(&p.cones, &p.b, BOUND, presolve);
        let red = hand_reduce(&p, &dropped, BOUND);
        let reference = match run_solver(&red, &settings(false, equil), false) {
            Ok(r) => r,
            Err(e) => return Err(Violation::new("machinery-reference-panic", e)),
        };
        judge(&p, presolve, equil, BOUND, &r, &reference, ctx)
    }
}

// ----------------------------------------------------------------------
// histories (serial: touches the process-global bound)
// ----------------------------------------------------------------------
#[derive(Clone, Copy, Debug)]
enum Op {
    SetInf(f64),
    DefaultInf,
    Build(usize),
    Solve(usize),
}

pub struct Histories {
    pub depth: usize,
}
impl Histories {
    fn alphabet() -> Vec<Op> {
        vec![Op::Build(0), Op::Solve(0), Op::SetInf(1e5), Op::SetInf(1e10), Op::DefaultInf, Op::Build(1), Op::Solve(1)]
    }
    fn decode(&self, id: u64) -> Vec<Op> {
        let al = Self::alphabet();
        let mut d = Digits(id);
        (0..self.depth).map(|_| *d.pick(&al)).collect()
    }
    fn problem(k: usize) -> Prob {
        if k == 0 {
            let cones = vec![ConeSpec::NN(4), ConeSpec::SOC(2)];
            let n = 2;
            let a = a_pattern(6, n, 2);
            Prob {
                n,
                m: 6,
                p: Dense::eye(n),
                p_full: false,
                q: vec![1.0, -1.0],
                a,
                b: vec![1.0, 2e5, 2e10, 2e20, 5e10, 0.0],
                cones,
            }
        } else {
            let cones = vec![ConeSpec::Zero(1), ConeSpec::NN(2), ConeSpec::SOC(1)];
            let n = 2;
            let a = a_pattern(4, n, 1);
            Prob {
                n,
                m: 4,
                p: Dense::zeros(n, n),
                p_full: false,
                q: vec![1.0, 1.0],
                a,
                b: vec![0.5, 1e30, 2.0, 3e7],
                cones,
            }
        }
    }
}

impl Space for Histories {
    fn name(&self) -> String {
        format!("infinity-histories-depth{}", self.depth)
    }
    fn size(&self) -> u64 {
        (Self::alphabet().len() as u64).pow(self.depth as u32)
    }
    fn serial(&self) -> bool {
        true
    }
    fn describe(&self, id: u64) -> Value {
        json!({"ops": self.decode(id).iter().map(|o| format!("{:?}", o)).collect::<Vec<_>>(),
               "problems": [Self::problem(0).to_json(), Self::problem(1).to_json()],
               "meaning": "Build(k) constructs problem k (presolve on, equilibration off); Solve(i) solves the i-th constructed solver"})
    }
    fn bound(&self) -> Value {
        json!({"depth": self.depth, "alphabet": Self::alphabet().iter().map(|o| format!("{:?}", o)).collect::<Vec<_>>()})
    }
    fn run(&self, id: u64, ctx: &mut Ctx) -> CaseResult {
        let ops = self.decode(id);
        clarabel::default_infinity();
        let mut current = clarabel::get_infinity();
        let mut built: Vec<(usize, f64, DefaultSolver<f64>)> = vec![];
        let result = (|| -> CaseResult {
            for op in &ops {
                ctx.transitions += 1;
                match *op {
                    Op::SetInf(v) => {
                        clarabel::set_infinity(v);
                        current = v;
                    }
                    Op::DefaultInf => {
                        clarabel::default_infinity();
                        current = 1e20;
                    }
                    Op::Build(k) => {
                        let p = Self::problem(k);
                        let ss = settings(true, false);
                        let solver = guarded(|| p.build(ss.build())).map_err(|e| Violation::new("panic-at-build", e))?;
                        // capping / dropping visible right away in the (unequilibrated) internal data
                        let dropped = expected_dropped(&p.cones, &p.b, current, true);
                        let red = hand_reduce(&p, &dropped, current);
                        ensure!(
                            solver.data.b == red.b,
                            "internal-b-not-capped-or-reduced-at-build-bound",
                            "bound {:e}: internal b {:?} expected {:?}",
                            current,
                            solver.data.b,
                            red.b
                        );
                        built.push((k, current, solver));
                    }
                    Op::Solve(i) => {
                        if i >= built.len() {
                            continue;
                        }
                        let (k, bound_at_build, solver) = &mut built[i];
                        guarded(|| solver.solve()).map_err(|e| Violation::new("panic-at-solve", e))?;
                        let r = extract(solver, vec![]);
                        // reference: hand-reduced and hand-capped, built where the crate can neither drop nor cap
                        let p = Self::problem(*k);
                        let dropped = expected_dropped(&p.cones, &p.b, *bound_at_build, true);
                        let red = hand_reduce(&p, &dropped, *bound_at_build);
                        clarabel::set_infinity(1e300);
                        let reference = run_solver(&red, &settings(false, false), false);
                        clarabel::set_infinity(current);
                        let reference = reference.map_err(|e| Violation::new("machinery-reference-panic", e))?;
                        judge(&p, true, false, *bound_at_build, &r, &reference, ctx)?;
                    }
                }
            }
            Ok(())
        })();
        clarabel::default_infinity();
        result
    }
}

pub const ASSUMPTIONS: &[&str] = &[
    "right-hand sides are kept away from the 10-epsilon contraction of the threshold (values bound*(1-1e-6), bound, 10*bound, 1e30, and -10*bound)",
    "singleton SOC/PSD cones count as nonnegative rows (documented collapse)",
    "the reference solver is built on data reduced and capped by hand with presolve disabled (histories: additionally with the module bound parked at 1e300 so the crate can neither drop nor cap); kept entries must agree bit for bit",
    "the histories run in one thread of a dedicated process and restore the default bound",
];

pub fn spaces(tier: &str, _seed: u64) -> Vec<Box<dyn Space>> {
    use ConeSpec::*;
    let thorough = tier == "thorough";
    let mut v: Vec<Box<dyn Space>> = vec![];
    let atoms = vec![Zero(1), NN(1), NN(2), SOC(1), SOC(2), PSD(1), Exp, NN(0), SOC(3), Pow(0.5), PSD(2)];
    let (maxlen, maxrows) = if thorough { (3, 6) } else { (3, 4) };
    for l in cone_lists(&atoms, maxlen, 1, maxrows) {
        // skip lists made of zero-row atoms only (nothing to place)
        v.push(Box::new(Placements { cones: l, n: 2 }));
    }
    for depth in 0..=(if thorough { 6 } else { 4 }) {
        v.push(Box::new(Histories { depth }));
    }
    v
}
