//! C13 — symmetric-cone scaling operators satisfy the Nesterov-Todd identities.
//! Real cone objects driven directly with every pair (s, z) from an interior-point lattice.

use crate::dense::*;
use crate::util::*;
use clarabel::solver::DefaultSettings;
use clarabel::verif_hooks::*;
use serde_json::{json, Value};

#[derive(Clone, Debug, PartialEq)]
pub enum Kind {
    NN(usize),
    SOC(usize),
    PSD(usize),
}
impl Kind {
    fn numel(&self) -> usize {
        match self {
            Kind::NN(d) | Kind::SOC(d) => *d,
            Kind::PSD(n) => n * (n + 1) / 2,
        }
    }
    fn tag(&self) -> String {
        format!("{:?}", self)
    }
}

pub const DELTAS: [f64; 4] = [1.0, 1e-2, 1e-4, 1e-8];
pub const MAGS: [f64; 3] = [1.0, 1e-6, 1e6];

/// interior point number (dir, delta, mag) of a cone
pub fn interior(kind: &Kind, dir: usize, delta: f64, mag: f64) -> Vec<f64> {
    match kind {
        Kind::NN(d) => (0..*d)
            .map(|i| {
                let base = match dir % 3 {
                    0 => 1.0,
                    1 => {
                        if i % 2 == 0 {
                            delta
                        } else {
                            1.0
                        }
                    }
                    _ => {
                        if i == d - 1 {
                            delta
                        } else {
                            2.0 + i as f64
                        }
                    }
                };
                mag * if delta == 1.0 && dir % 3 != 0 { base + 0.5 * i as f64 } else { base }
            })
            .collect(),
        Kind::SOC(d) => {
            // (1, (1-delta)*u), u a unit direction
            let k = d - 1;
            let mut u = vec![0.0; k];
            match dir % 3 {
                0 => u[0] = 1.0,
                1 => {
                    for i in 0..k {
                        u[i] = 1.0 / (k as f64).sqrt();
                    }
                }
                _ => {
                    for i in 0..k {
                        u[i] = (if i % 2 == 0 { 1.0 } else { -1.0 }) * ((i + 1) as f64);
                    }
                    let nr = norm2(&u);
                    for x in u.iter_mut() {
                        *x /= nr;
                    }
                }
            }
            let r = if delta == 1.0 { 0.0 } else { 1.0 - delta };
            let mut v = vec![mag];
            v.extend(u.iter().map(|x| mag * r * x));
            v
        }
        Kind::PSD(n) => {
            // Q diag(1, delta, ...) Q' with Q a product of plane rotations
            let n = *n;
            let mut q = Dense::eye(n);
            let angle = [0.0, 0.7, 2.1][dir % 3];
            for a in 0..n {
                for b in a + 1..n {
                    let (c, s) = ((angle + a as f64 * 0.3).cos(), (angle + a as f64 * 0.3).sin());
                    let mut g = Dense::eye(n);
                    g.set(a, a, c);
                    g.set(b, b, c);
                    g.set(a, b, -s);
                    g.set(b, a, s);
                    q = q.matmul(&g);
                }
            }
            let mut lam = Dense::zeros(n, n);
            for i in 0..n {
                lam.set(i, i, mag * if i == n - 1 && n > 1 { delta } else if i == 0 { 1.0 } else { 0.5 });
            }
            if n == 1 {
                lam.set(0, 0, mag * delta.max(1e-8));
            }
            let m = q.matmul(&lam).matmul(&q.t());
            // symmetrise exactly
            let mut sym = Dense::zeros(n, n);
            for i in 0..n {
                for j in 0..n {
                    sym.set(i, j, 0.5 * (m.at(i, j) + m.at(j, i)));
                }
            }
            mat_to_svec(&sym)
        }
    }
}

/// Jordan product by the textbook definition
pub fn jordan(kind: &Kind, x: &[f64], y: &[f64]) -> Vec<f64> {
    match kind {
        Kind::NN(_) => x.iter().zip(y).map(|(a, b)| a * b).collect(),
        Kind::SOC(_) => {
            let mut v = vec![dot(x, y)];
            for i in 1..x.len() {
                v.push(x[0] * y[i] + y[0] * x[i]);
            }
            v
        }
        Kind::PSD(n) => {
            let (a, b) = (svec_to_mat(x, *n), svec_to_mat(y, *n));
            let (ab, ba) = (a.matmul(&b), b.matmul(&a));
            let mut m = Dense::zeros(*n, *n);
            for i in 0..*n {
                for j in 0..*n {
                    m.set(i, j, 0.5 * (ab.at(i, j) + ba.at(i, j)));
                }
            }
            mat_to_svec(&m)
        }
    }
}
pub fn identity(kind: &Kind) -> Vec<f64> {
    match kind {
        Kind::NN(d) => vec![1.0; *d],
        Kind::SOC(d) => {
            let mut v = vec![0.0; *d];
            v[0] = 1.0;
            v
        }
        Kind::PSD(n) => mat_to_svec(&Dense::eye(*n)),
    }
}

fn relerr(a: &[f64], b: &[f64]) -> f64 {
    let d: Vec<f64> = a.iter().zip(b).map(|(x, y)| x - y).collect();
    let den = f64::max(norm2(a), norm2(b));
    if den == 0.0 {
        norm2(&d)
    } else {
        norm2(&d) / den
    }
}

pub struct NtPairs {
    pub kind: Kind,
}

impl NtPairs {
    fn npts(&self) -> u64 {
        (3 * DELTAS.len() * MAGS.len()) as u64
    }
    fn point(&self, id: u64) -> (Vec<f64>, f64, f64) {
        let mut d = Digits(id);
        let dir = d.take(3) as usize;
        let delta = *d.pick(&DELTAS);
        let mag = *d.pick(&MAGS);
        (interior(&self.kind, dir, delta, mag), delta, mag)
    }
    fn decode(&self, id: u64) -> (Vec<f64>, Vec<f64>, f64, f64, f64, f64) {
        let n = self.npts();
        let (s, ds, ms) = self.point(id % n);
        let (z, dz, mz) = self.point(id / n);
        (s, z, ds, dz, ms, mz)
    }

    fn check<C: Cone<f64> + SymmetricCone<f64>>(&self, cone: &mut C, s: &[f64], z: &[f64], tol: f64, ctx: &mut Ctx, sparse: Option<(Vec<f64>, Vec<f64>, f64, f64)>) -> CaseResult {
        let n = s.len();
        let kind = &self.kind;
        let mut measure = |name: &str, e: f64, ctx: &mut Ctx| -> CaseResult {
            ctx.measure_max(&format!("relerr/tol:{}", name), e / tol);
            ensure!(e <= tol, &format!("nt-identity:{}", name), "relative error {:e} > {:e} at s={:?} z={:?}", e, tol, s, z);
            Ok(())
        };
        // λ = W z = W^{-T} s
        let mut l1 = vec![0.0; n];
        cone.mul_W(MatrixShape::N, &mut l1, z, 1.0, 0.0);
        let mut l2 = vec![0.0; n];
        cone.mul_Winv(MatrixShape::T, &mut l2, s, 1.0, 0.0);
        measure("Wz=WinvT_s", relerr(&l1, &l2), ctx)?;
        // W'W z = s
        let mut wtwz = vec![0.0; n];
        cone.mul_W(MatrixShape::T, &mut wtwz, &l1, 1.0, 0.0);
        measure("WtWz=s", relerr(&wtwz, s), ctx)?;
        // Hs z = s through mul_Hs
        let mut hz = vec![0.0; n];
        let mut work = vec![0.0; n];
        cone.mul_Hs(&mut hz, z, &mut work);
        measure("Hs_z=s", relerr(&hz, s), ctx)?;
        // affine_ds = λ∘λ
        let mut ads = vec![0.0; n];
        cone.affine_ds(&mut ads, s);
        measure("affine_ds=lam.lam", relerr(&ads, &jordan(kind, &l1, &l1)), ctx)?;
        // test vectors: basis and two dense ones
        let mut tests: Vec<Vec<f64>> = (0..n)
            .map(|k| {
                let mut e = vec![0.0; n];
                e[k] = 1.0;
                e
            })
            .collect();
        tests.push((0..n).map(|i| 1.0 + 0.25 * i as f64).collect());
        tests.push((0..n).map(|i| if i % 2 == 0 { -0.5 } else { 2.0 }).collect());
        let ytest: Vec<f64> = (0..n).map(|i| 0.3 - 0.7 * i as f64).collect();
        let mut hs_dense = Dense::zeros(n, n);
        for (k, x) in tests.iter().enumerate() {
            let mut wx = vec![0.0; n];
            cone.mul_W(MatrixShape::N, &mut wx, x, 1.0, 0.0);
            let mut back = vec![0.0; n];
            cone.mul_Winv(MatrixShape::N, &mut back, &wx, 1.0, 0.0);
            measure("Winv_W=I", relerr(&back, x), ctx)?;
            let mut wix = vec![0.0; n];
            cone.mul_Winv(MatrixShape::N, &mut wix, x, 1.0, 0.0);
            let mut back2 = vec![0.0; n];
            cone.mul_W(MatrixShape::N, &mut back2, &wix, 1.0, 0.0);
            measure("W_Winv=I", relerr(&back2, x), ctx)?;
            // transpose consistency <Wx,y> = <x,W'y>
            let mut wty = vec![0.0; n];
            cone.mul_W(MatrixShape::T, &mut wty, &ytest, 1.0, 0.0);
            let (a, b) = (dot(&wx, &ytest), dot(x, &wty));
            let scale = norm2(&wx) * norm2(&ytest) + 1e-300;
            measure("transpose-consistency", (a - b).abs() / scale, ctx)?;
            let mut wity = vec![0.0; n];
            cone.mul_Winv(MatrixShape::T, &mut wity, &ytest, 1.0, 0.0);
            let (a, b) = (dot(&wix, &ytest), dot(x, &wity));
            let scale = norm2(&wix) * norm2(&ytest) + 1e-300;
            measure("transpose-consistency-inv", (a - b).abs() / scale, ctx)?;
            // alpha/beta semantics: y = a W x + b y
            let mut y = ytest.clone();
            cone.mul_W(MatrixShape::N, &mut y, x, 2.0, -1.0);
            let want: Vec<f64> = (0..n).map(|i| 2.0 * wx[i] - ytest[i]).collect();
            measure("mul_W-alpha-beta", relerr(&y, &want), ctx)?;
            // the same accumulate form y = a Op x + b y for the transpose and for the inverse, both shapes
            for (shape, inv) in [(MatrixShape::T, false), (MatrixShape::N, true), (MatrixShape::T, true)] {
                let mut op = vec![0.0; n];
                let mut y = ytest.clone();
                if inv {
                    cone.mul_Winv(shape, &mut op, x, 1.0, 0.0);
                    cone.mul_Winv(shape, &mut y, x, -0.5, 3.0);
                } else {
                    cone.mul_W(shape, &mut op, x, 1.0, 0.0);
                    cone.mul_W(shape, &mut y, x, -0.5, 3.0);
                }
                let want: Vec<f64> = (0..n).map(|i| -0.5 * op[i] + 3.0 * ytest[i]).collect();
                measure(if inv { "mul_Winv-alpha-beta" } else { "mul_Wt-alpha-beta" }, relerr(&y, &want), ctx)?;
            }
            // Hs x = W'(W x)
            let mut hx = vec![0.0; n];
            cone.mul_Hs(&mut hx, x, &mut work);
            let mut wtwx = vec![0.0; n];
            cone.mul_W(MatrixShape::T, &mut wtwx, &wx, 1.0, 0.0);
            measure("mul_Hs=WtW", relerr(&hx, &wtwx), ctx)?;
            if k < n {
                for i in 0..n {
                    hs_dense.set(i, k, hx[i]);
                }
            }
            // Jordan product and its λ-inverse
            let mut c = vec![0.0; n];
            cone.circ_op(&mut c, x, &ytest);
            measure("circ_op", relerr(&c, &jordan(kind, x, &ytest)), ctx)?;
            let mut li = vec![0.0; n];
            cone.λ_inv_circ_op(&mut li, x);
            measure("lambda_inv_circ_op", relerr(&jordan(kind, &l1, &li), x), ctx)?;
            // Δs offset: out = W'(λ \ ds)
            let mut out = vec![0.0; n];
            let mut wk = vec![0.0; n];
            cone.Δs_from_Δz_offset(&mut out, x, &mut wk, z);
            let mut want = vec![0.0; n];
            cone.mul_W(MatrixShape::T, &mut want, &li, 1.0, 0.0);
            measure("ds_from_dz_offset", relerr(&out, &want), ctx)?;
            // combined_ds_shift = (W^{-T}ds) ∘ (W dz) - σμ e
            let (mut sz, mut ssv) = (x.clone(), ytest.clone());
            let mut shift = vec![0.0; n];
            cone.combined_ds_shift(&mut shift, &mut sz, &mut ssv, 0.375);
            let mut wdz = vec![0.0; n];
            cone.mul_W(MatrixShape::N, &mut wdz, x, 1.0, 0.0);
            let mut wids = vec![0.0; n];
            cone.mul_Winv(MatrixShape::T, &mut wids, &ytest, 1.0, 0.0);
            let mut want = jordan(kind, &wids, &wdz);
            for (w, e) in want.iter_mut().zip(identity(kind)) {
                *w -= 0.375 * e;
            }
            let scale = f64::max(norm2(&want), norm2(&wids) * norm2(&wdz));
            let dd: Vec<f64> = shift.iter().zip(&want).map(|(a, b)| a - b).collect();
            measure("combined_ds_shift", norm2(&dd) / (scale + 1e-300), ctx)?;
            ctx.transitions += 12;
        }
        // the block written into the KKT matrix is the same operator
        let nb = if cone.Hs_is_diagonal() { n } else { n * (n + 1) / 2 };
        let mut blk = vec![0.0; nb];
        cone.get_Hs(&mut blk);
        let mut from_block = Dense::zeros(n, n);
        if let Some((u, v, d, eta)) = sparse {
            // sparse expansion: Hs = eta^2 (D + uu' - vv'), D = diag(d,1,...,1), and the block holds eta^2 D
            for i in 0..n {
                ensure!((blk[i] - eta * eta * if i == 0 { d } else { 1.0 }).abs() <= 1e-14 * (eta * eta), "nt-identity:sparse-D-block", "entry {} = {:e}", i, blk[i]);
                for j in 0..n {
                    from_block.set(i, j, eta * eta * ((if i == j { if i == 0 { d } else { 1.0 } } else { 0.0 }) + u[i] * u[j] - v[i] * v[j]));
                }
            }
        } else if cone.Hs_is_diagonal() {
            for i in 0..n {
                from_block.set(i, i, blk[i]);
            }
        } else {
            let mut k = 0;
            for col in 0..n {
                for row in 0..=col {
                    from_block.set(row, col, blk[k]);
                    from_block.set(col, row, blk[k]);
                    k += 1;
                }
            }
        }
        let scale = hs_dense.norm_inf_all() + 1e-300;
        let mut worst = 0.0f64;
        for i in 0..n {
            for j in 0..n {
                worst = worst.max((from_block.at(i, j) - hs_dense.at(i, j)).abs() / scale);
            }
        }
        measure("get_Hs-block=mul_Hs", worst, ctx)?;
        Ok(())
    }
}

/// scaling histories on one cone object: the last operation is judged
const NHIST: u64 = 5;
fn history_of(h: u64) -> &'static str {
    ["U(a)", "U(b)U(a)", "Id", "U(a)Id", "U(b)IdU(a)"][h as usize]
}

impl NtPairs {
    /// after set_identity_scaling every operator is the identity, in every representation
    fn check_identity<C: Cone<f64> + SymmetricCone<f64>>(&self, cone: &mut C, ctx: &mut Ctx, sparse: Option<(Vec<f64>, Vec<f64>, f64, f64)>) -> CaseResult {
        let n = self.kind.numel();
        let mut work = vec![0.0; n];
        let mut hs_dense = Dense::zeros(n, n);
        for k in 0..n + 1 {
            let x: Vec<f64> = if k < n { (0..n).map(|i| if i == k { 1.0 } else { 0.0 }).collect() } else { (0..n).map(|i| 0.3 - 0.7 * i as f64).collect() };
            for shape in [MatrixShape::N, MatrixShape::T] {
                let mut y = vec![0.0; n];
                cone.mul_W(shape, &mut y, &x, 1.0, 0.0);
                ensure!(relerr(&y, &x) <= 1e-15, "identity-scaling:mul_W", "W x = {:?} for x = {:?}", y, x);
                let mut y = vec![0.0; n];
                cone.mul_Winv(shape, &mut y, &x, 1.0, 0.0);
                ensure!(relerr(&y, &x) <= 1e-15, "identity-scaling:mul_Winv", "Winv x = {:?} for x = {:?}", y, x);
            }
            let mut hx = vec![0.0; n];
            cone.mul_Hs(&mut hx, &x, &mut work);
            ensure!(relerr(&hx, &x) <= 1e-15, "identity-scaling:mul_Hs", "Hs x = {:?} for x = {:?}", hx, x);
            if k < n {
                for i in 0..n {
                    hs_dense.set(i, k, hx[i]);
                }
            }
            ctx.transitions += 5;
        }
        let nb = if cone.Hs_is_diagonal() { n } else { n * (n + 1) / 2 };
        let mut blk = vec![0.0; nb];
        cone.get_Hs(&mut blk);
        let mut from_block = Dense::zeros(n, n);
        if let Some((u, v, d, eta)) = sparse {
            for i in 0..n {
                ensure!((blk[i] - eta * eta * if i == 0 { d } else { 1.0 }).abs() <= 1e-15, "identity-scaling:sparse-D-block", "entry {} = {:e}", i, blk[i]);
                for j in 0..n {
                    from_block.set(i, j, eta * eta * ((if i == j { if i == 0 { d } else { 1.0 } } else { 0.0 }) + u[i] * u[j] - v[i] * v[j]));
                }
            }
        } else if cone.Hs_is_diagonal() {
            for i in 0..n {
                from_block.set(i, i, blk[i]);
            }
        } else {
            let mut k = 0;
            for col in 0..n {
                for row in 0..=col {
                    from_block.set(row, col, blk[k]);
                    from_block.set(col, row, blk[k]);
                    k += 1;
                }
            }
        }
        for i in 0..n {
            for j in 0..n {
                let e = (from_block.at(i, j) - hs_dense.at(i, j)).abs();
                ensure!(e <= 4e-16, "identity-scaling:get_Hs-block=mul_Hs", "KKT block entry ({},{}) is {:e} but the applied operator has {:e}", i, j, from_block.at(i, j), hs_dense.at(i, j));
            }
        }
        Ok(())
    }

    fn drive<C: Cone<f64> + SymmetricCone<f64>>(&self, c: &mut C, h: u64, a: (&[f64], &[f64]), b: (&[f64], &[f64]), tol: f64, ctx: &mut Ctx, sparse_of: &dyn Fn(&C) -> Option<(Vec<f64>, Vec<f64>, f64, f64)>) -> CaseResult {
        let strategy = ScalingStrategy::PrimalDual;
        let ops: &[u8] = match h {
            0 => b"a",
            1 => b"ba",
            2 => b"i",
            3 => b"ai",
            _ => b"bia",
        };
        for op in ops {
            match op {
                b'a' => ensure!(c.update_scaling(a.0, a.1, 1.0, strategy), "update_scaling-fails-on-interior-point", "s={:?} z={:?}", a.0, a.1),
                b'b' => ensure!(c.update_scaling(b.0, b.1, 1.0, strategy), "update_scaling-fails-on-interior-point", "s={:?} z={:?}", b.0, b.1),
                _ => c.set_identity_scaling(),
            }
            ctx.transitions += 1;
        }
        let sparse = sparse_of(c);
        if *ops.last().unwrap() == b'i' {
            self.check_identity(c, ctx, sparse)
        } else {
            self.check(c, a.0, a.1, tol, ctx, sparse)
        }
    }
}

impl Space for NtPairs {
    fn name(&self) -> String {
        format!("nt-pairs-{}", self.kind.tag())
    }
    fn size(&self) -> u64 {
        self.npts() * self.npts() * NHIST
    }
    fn describe(&self, id: u64) -> Value {
        let nn = self.npts() * self.npts();
        let (s, z, ds, dz, ms, mz) = self.decode(id % nn);
        json!({"cone": self.kind.tag(), "history": history_of(id / nn), "a": {"s": s, "z": z}, "b": "a with s and z exchanged", "boundary_distance": [ds, dz], "magnitude": [ms, mz]})
    }
    fn bound(&self) -> Value {
        json!({"directions": 3, "boundary_distances": DELTAS, "magnitudes": MAGS, "pairs": "all (s,z)", "histories": "U(a) | U(b)U(a) | Id | U(a)Id | U(b)IdU(a) on one cone object; the state after the last operation is judged"})
    }
    fn run(&self, id: u64, ctx: &mut Ctx) -> CaseResult {
        let nn = self.npts() * self.npts();
        let h = id / nn;
        let (s, z, ds, dz, _ms, _mz) = self.decode(id % nn);
        // error grows with the conditioning of the scaling point: cond(W)^2 ~ 1/(ds*dz)
        let tol = 2e-12 / (ds * dz).sqrt().max(1e-8) / ds.min(dz).sqrt();
        ctx.nontrivial += 1;
        ctx.outcome(history_of(h));
        let a = (&s[..], &z[..]);
        let b = (&z[..], &s[..]); // the cones are self-dual: (z,s) is another interior pair
        match &self.kind {
            Kind::NN(d) => {
                let mut c = NonnegativeCone::<f64>::new(*d);
                self.drive(&mut c, h, a, b, tol, ctx, &|_| None)
            }
            Kind::SOC(d) => {
                let mut c = SecondOrderCone::<f64>::new(*d);
                let d = *d;
                self.drive(&mut c, h, a, b, tol, ctx, &|c: &SecondOrderCone<f64>| c.sparse_data.as_ref().map(|sd| (sd.u.clone(), sd.v.clone(), sd.d, c.η)))?;
                ensure!(c.sparse_data.is_some() == (d > 4), "sparse-expansion-threshold", "dim {} sparse {}", d, c.sparse_data.is_some());
                if h < 2 || h == 4 {
                    // λ is public for the second-order cone
                    let mut l1 = vec![0.0; d];
                    c.mul_W(MatrixShape::N, &mut l1, &z, 1.0, 0.0);
                    let e = relerr(&l1, &c.λ);
                    ensure!(e <= tol, "nt-identity:stored-lambda", "relerr {:e}", e);
                }
                Ok(())
            }
            Kind::PSD(k) => {
                let mut c = PSDTriangleCone::<f64>::new(*k);
                self.drive(&mut c, h, a, b, tol, ctx, &|_| None)
            }
        }
    }
}

pub const ASSUMPTIONS: &[&str] = &[
    "identities are judged in relative 2-norm with tolerance 2e-12/(sqrt(ds*dz)*sqrt(min(ds,dz))) where ds,dz are the relative boundary distances of s and z: rounding is amplified by cond(W)^2 ~ 1/(ds*dz); the constant was fixed from the unchanged tree with >= 100x head-room (largest observed ratio is reported in the evidence as relerr/tol)",
    "Jordan products, cone identities and svec conventions are written independently in the harness",
    "PSD cones run on the harness's BLAS/LAPACK shims",
];

pub fn spaces(tier: &str, _seed: u64) -> Vec<Box<dyn Space>> {
    let thorough = tier == "thorough";
    let mut kinds = vec![Kind::NN(1), Kind::NN(3), Kind::SOC(2), Kind::SOC(3), Kind::SOC(4), Kind::SOC(5), Kind::SOC(6), Kind::PSD(1), Kind::PSD(2), Kind::PSD(3)];
    if thorough {
        kinds.extend([Kind::NN(6), Kind::SOC(9), Kind::SOC(17), Kind::PSD(4)]);
    }
    kinds.into_iter().map(|k| Box::new(NtPairs { kind: k }) as Box<dyn Space>).collect()
}
