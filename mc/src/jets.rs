//! Nested dual numbers: exact first, second and mixed third directional derivatives of a
//! scalar function written once over the `Num` trait.
#![allow(dead_code)]

use std::ops::{Add, Div, Mul, Neg, Sub};

pub trait Num: Copy + Add<Output = Self> + Sub<Output = Self> + Mul<Output = Self> + Div<Output = Self> + Neg<Output = Self> {
    fn c(v: f64) -> Self;
    fn ln(self) -> Self;
    fn exp(self) -> Self;
    fn powf(self, p: f64) -> Self;
    fn val(self) -> f64;
}

impl Num for f64 {
    fn c(v: f64) -> Self {
        v
    }
    fn ln(self) -> Self {
        f64::ln(self)
    }
    fn exp(self) -> Self {
        f64::exp(self)
    }
    fn powf(self, p: f64) -> Self {
        f64::powf(self, p)
    }
    fn val(self) -> f64 {
        self
    }
}

#[derive(Clone, Copy, Debug)]
pub struct Dual<T> {
    pub re: T,
    pub du: T,
}

impl<T: Num> Dual<T> {
    pub fn new(re: T, du: T) -> Self {
        Self { re, du }
    }
}
impl<T: Num> Add for Dual<T> {
    type Output = Self;
    fn add(self, o: Self) -> Self {
        Dual::new(self.re + o.re, self.du + o.du)
    }
}
impl<T: Num> Sub for Dual<T> {
    type Output = Self;
    fn sub(self, o: Self) -> Self {
        Dual::new(self.re - o.re, self.du - o.du)
    }
}
impl<T: Num> Mul for Dual<T> {
    type Output = Self;
    fn mul(self, o: Self) -> Self {
        Dual::new(self.re * o.re, self.re * o.du + self.du * o.re)
    }
}
impl<T: Num> Div for Dual<T> {
    type Output = Self;
    fn div(self, o: Self) -> Self {
        let q = self.re / o.re;
        Dual::new(q, (self.du - q * o.du) / o.re)
    }
}
impl<T: Num> Neg for Dual<T> {
    type Output = Self;
    fn neg(self) -> Self {
        Dual::new(-self.re, -self.du)
    }
}
impl<T: Num> Num for Dual<T> {
    fn c(v: f64) -> Self {
        Dual::new(T::c(v), T::c(0.0))
    }
    fn ln(self) -> Self {
        Dual::new(self.re.ln(), self.du / self.re)
    }
    fn exp(self) -> Self {
        let e = self.re.exp();
        Dual::new(e, self.du * e)
    }
    fn powf(self, p: f64) -> Self {
        Dual::new(self.re.powf(p), self.du * T::c(p) * self.re.powf(p - 1.0))
    }
    fn val(self) -> f64 {
        self.re.val()
    }
}

pub type D1 = Dual<f64>;
pub type D2 = Dual<Dual<f64>>;
pub type D3 = Dual<Dual<Dual<f64>>>;

/// directional derivative D f(x)[u]
pub fn d1(f: &dyn Fn(&[D1]) -> D1, x: &[f64], u: &[f64]) -> f64 {
    let xs: Vec<D1> = x.iter().zip(u).map(|(a, b)| Dual::new(*a, *b)).collect();
    f(&xs).du
}
/// D^2 f(x)[u,v]
pub fn d2(f: &dyn Fn(&[D2]) -> D2, x: &[f64], u: &[f64], v: &[f64]) -> f64 {
    let xs: Vec<D2> = (0..x.len()).map(|i| Dual::new(Dual::new(x[i], u[i]), Dual::new(v[i], 0.0))).collect();
    f(&xs).du.du
}
/// D^3 f(x)[u,v,w]
pub fn d3(f: &dyn Fn(&[D3]) -> D3, x: &[f64], u: &[f64], v: &[f64], w: &[f64]) -> f64 {
    let xs: Vec<D3> = (0..x.len())
        .map(|i| Dual::new(Dual::new(Dual::new(x[i], u[i]), Dual::new(v[i], 0.0)), Dual::new(Dual::new(w[i], 0.0), Dual::new(0.0, 0.0))))
        .collect();
    f(&xs).du.du.du
}
