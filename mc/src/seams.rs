//! Environment seams: the *real* generic `Solver::solve()` loop instantiated with a
//! fault-injecting KKT system.  Everything else (problem data, variables, residuals, cones,
//! info, solution, settings) is the crate's own default implementation.
#![allow(dead_code)]

use crate::problem::*;
use crate::solve::Run;
use clarabel::algebra::*;
use clarabel::solver::traits::{KKTSystem, ProblemData};
use clarabel::solver::*;
use clarabel::timers::Timers;
use clarabel::verif_hooks::{vclock_advance, CompositeCone, HasLinearSolverInfo, Solver, StepDirection};

/// what the environment does during one main-loop iteration (one `KKTSystem::update` call of the loop)
#[derive(Clone, Copy, Debug, PartialEq)]
pub enum Act {
    /// nothing unusual
    Nominal,
    /// the factorisation fails: `update` returns false
    FailUpdate,
    /// the affine solve fails
    FailAffine,
    /// the combined solve fails
    FailCombined,
    /// `nanos` of (virtual) time pass during the KKT update
    Clock(u64),
    /// the computed combined step is replaced by one that leaves the cone almost immediately
    /// (real step-length code then returns a tiny alpha)
    TinyStep,
    /// the computed combined step is blown up in x so that residuals explode (going backwards)
    Backwards,
}

pub struct FaultyKkt {
    pub inner: DefaultKKTSystem<f64>,
    /// script[k] applies to the k-th iteration of the main loop (k = 1, 2, ...); missing = Nominal
    pub script: Vec<Act>,
    /// number of `update` calls seen inside the main loop
    pub loop_updates: usize,
    /// true once default_start has finished (symmetric cones call update/solve_initial_point there)
    pub in_loop: bool,
    pub symmetric_start: bool,
    pub trace: Vec<String>,
}

impl FaultyKkt {
    fn act(&self) -> Act {
        if self.loop_updates >= 1 && self.loop_updates <= self.script.len() {
            self.script[self.loop_updates - 1]
        } else {
            Act::Nominal
        }
    }
}

impl KKTSystem<f64> for FaultyKkt {
    type D = DefaultProblemData<f64>;
    type V = DefaultVariables<f64>;
    type C = CompositeCone<f64>;
    type SE = DefaultSettings<f64>;

    fn update(&mut self, data: &Self::D, cones: &Self::C, settings: &Self::SE) -> bool {
        if self.symmetric_start && !self.in_loop {
            // the call made by default_start
            return self.inner.update(data, cones, settings);
        }
        self.in_loop = true;
        self.loop_updates += 1;
        let act = self.act();
        self.trace.push(format!("update#{}:{:?}", self.loop_updates, act));
        match act {
            Act::Clock(ns) => {
                vclock_advance(ns);
                self.inner.update(data, cones, settings)
            }
            Act::FailUpdate => {
                let _ = self.inner.update(data, cones, settings);
                false
            }
            _ => self.inner.update(data, cones, settings),
        }
    }

    fn solve(
        &mut self,
        lhs: &mut Self::V,
        rhs: &Self::V,
        data: &Self::D,
        variables: &Self::V,
        cones: &mut Self::C,
        step_direction: StepDirection,
        settings: &Self::SE,
    ) -> bool {
        let act = self.act();
        let ok = self.inner.solve(lhs, rhs, data, variables, cones, step_direction, settings);
        match (act, step_direction) {
            (Act::FailAffine, StepDirection::Affine) => false,
            (Act::FailCombined, StepDirection::Combined) => false,
            (Act::TinyStep, StepDirection::Combined) => {
                // point straight out of the cone: s - 1e6*s
                for (l, v) in lhs.s.iter_mut().zip(&variables.s) {
                    *l = -1e6 * *v;
                }
                for (l, v) in lhs.z.iter_mut().zip(&variables.z) {
                    *l = -1e6 * *v;
                }
                lhs.τ = -1e6 * variables.τ;
                ok
            }
            (Act::Backwards, StepDirection::Combined) => {
                for l in lhs.x.iter_mut() {
                    *l *= -300.0;
                }
                ok
            }
            _ => ok,
        }
    }

    fn solve_initial_point(&mut self, variables: &mut Self::V, data: &Self::D, settings: &Self::SE) -> bool {
        let r = self.inner.solve_initial_point(variables, data, settings);
        self.in_loop = true;
        r
    }
}

pub type FaultySolver = Solver<
    DefaultProblemData<f64>,
    DefaultVariables<f64>,
    DefaultResiduals<f64>,
    FaultyKkt,
    CompositeCone<f64>,
    DefaultInfo<f64>,
    DefaultSolution<f64>,
    DefaultSettings<f64>,
>;

/// build the solver exactly as `DefaultSolver::new` does, with the wrapped KKT system
pub fn build_faulty(p: &Prob, settings: DefaultSettings<f64>, script: Vec<Act>) -> FaultySolver {
    let (pc, ac) = (p.p_csc(), p.a_csc());
    let cones_api = p.api_cones();
    let mut timers = Timers::default();
    timers.start_as_current("setup");
    let solution = DefaultSolution::<f64>::new(ac.n, ac.m);
    let mut data = DefaultProblemData::<f64>::new(&pc, &p.q, &ac, &p.b, &cones_api, &settings);
    let cones = CompositeCone::<f64>::new(&data.cones);
    let variables = DefaultVariables::<f64>::new(data.n, data.m);
    let residuals = DefaultResiduals::<f64>::new(data.n, data.m);
    data.equilibrate(&cones, &settings);
    let inner = DefaultKKTSystem::<f64>::new(&data, &cones, &settings);
    let mut info = DefaultInfo::<f64>::new();
    info.linsolver = inner.linear_solver_info();
    let symmetric_start = p.cones.iter().all(|c| c.is_symmetric());
    let kktsystem = FaultyKkt {
        inner,
        script,
        loop_updates: 0,
        in_loop: !symmetric_start,
        symmetric_start,
        trace: vec![],
    };
    let step_rhs = DefaultVariables::<f64>::new(data.n, data.m);
    let step_lhs = DefaultVariables::<f64>::new(data.n, data.m);
    let prev_vars = DefaultVariables::<f64>::new(data.n, data.m);
    timers.stop_current();
    Solver {
        data,
        variables,
        residuals,
        kktsystem,
        step_lhs,
        step_rhs,
        prev_vars,
        info,
        solution,
        cones,
        settings,
        timers: Some(timers),
    }
}

pub fn extract_faulty(solver: &FaultySolver, iters: Vec<clarabel::verif_hooks::IterRecord>) -> Run {
    let sol = &solver.solution;
    Run {
        status: sol.status,
        x: sol.x.clone(),
        s: sol.s.clone(),
        z: sol.z.clone(),
        obj_val: sol.obj_val,
        obj_val_dual: sol.obj_val_dual,
        iterations: sol.iterations,
        r_prim: sol.r_prim,
        r_dual: sol.r_dual,
        solve_time: sol.solve_time,
        info: solver.info.clone(),
        iters,
        tau_after: solver.variables.τ,
        kappa_after: solver.variables.κ,
        equil_c: solver.data.equilibration.c,
        equil_d: solver.data.equilibration.d.clone(),
        equil_e: solver.data.equilibration.e.clone(),
        internal_m: solver.data.m,
        internal_n: solver.data.n,
    }
}
