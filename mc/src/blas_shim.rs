//! Plain-Rust definitions of the Fortran BLAS/LAPACK symbols the crate's `sdp` feature
//! links against (there is no system BLAS in this sandbox).  Column-major, all arguments
//! by pointer, honouring the workspace-query protocol (lwork = -1).  Each factorisation
//! self-checks its result and aborts the process on failure (a broken shim must never
//! turn into a verdict about the code under test).
#![allow(non_snake_case)]
#![allow(clippy::missing_safety_doc)]
#![allow(clippy::too_many_arguments)]

use std::os::raw::{c_char, c_int};

fn die(msg: &str) -> ! {
    eprintln!("MACHINERY: BLAS shim self-check failed: {}", msg);
    std::process::abort();
}

#[inline]
unsafe fn ch(p: *const c_char) -> u8 {
    (*p as u8).to_ascii_uppercase()
}

#[inline]
fn idx(i: usize, j: usize, ld: usize) -> usize {
    i + j * ld
}

// ---------------------------------------------------------------- BLAS

#[no_mangle]
pub unsafe extern "C" fn dgemm_(
    transa: *const c_char, transb: *const c_char, m: *const c_int, n: *const c_int, k: *const c_int,
    alpha: *const f64, a: *const f64, lda: *const c_int, b: *const f64, ldb: *const c_int,
    beta: *const f64, c: *mut f64, ldc: *const c_int,
) {
    let (ta, tb) = (ch(transa) != b'N', ch(transb) != b'N');
    let (m, n, k) = (*m as usize, *n as usize, *k as usize);
    let (lda, ldb, ldc) = (*lda as usize, *ldb as usize, *ldc as usize);
    let (alpha, beta) = (*alpha, *beta);
    for j in 0..n {
        for i in 0..m {
            let mut s = 0.0;
            for l in 0..k {
                let av = if ta { *a.add(idx(l, i, lda)) } else { *a.add(idx(i, l, lda)) };
                let bv = if tb { *b.add(idx(j, l, ldb)) } else { *b.add(idx(l, j, ldb)) };
                s += av * bv;
            }
            let cp = c.add(idx(i, j, ldc));
            *cp = if beta == 0.0 { alpha * s } else { alpha * s + beta * *cp };
        }
    }
}

#[no_mangle]
pub unsafe extern "C" fn dgemv_(
    trans: *const c_char, m: *const c_int, n: *const c_int, alpha: *const f64, a: *const f64,
    lda: *const c_int, x: *const f64, incx: *const c_int, beta: *const f64, y: *mut f64, incy: *const c_int,
) {
    let t = ch(trans) != b'N';
    let (m, n, lda) = (*m as usize, *n as usize, *lda as usize);
    let (incx, incy) = (*incx as usize, *incy as usize);
    let (alpha, beta) = (*alpha, *beta);
    let (ylen, xlen) = if t { (n, m) } else { (m, n) };
    for i in 0..ylen {
        let mut s = 0.0;
        for l in 0..xlen {
            let av = if t { *a.add(idx(l, i, lda)) } else { *a.add(idx(i, l, lda)) };
            s += av * *x.add(l * incx);
        }
        let yp = y.add(i * incy);
        *yp = if beta == 0.0 { alpha * s } else { alpha * s + beta * *yp };
    }
}

#[no_mangle]
pub unsafe extern "C" fn dsymv_(
    uplo: *const c_char, n: *const c_int, alpha: *const f64, a: *const f64, lda: *const c_int,
    x: *const f64, incx: *const c_int, beta: *const f64, y: *mut f64, incy: *const c_int,
) {
    let up = ch(uplo) == b'U';
    let (n, lda) = (*n as usize, *lda as usize);
    let (incx, incy) = (*incx as usize, *incy as usize);
    let (alpha, beta) = (*alpha, *beta);
    for i in 0..n {
        let mut s = 0.0;
        for j in 0..n {
            let (r, c) = if (i <= j) == up { (i, j) } else { (j, i) };
            s += *a.add(idx(r, c, lda)) * *x.add(j * incx);
        }
        let yp = y.add(i * incy);
        *yp = if beta == 0.0 { alpha * s } else { alpha * s + beta * *yp };
    }
}

#[no_mangle]
pub unsafe extern "C" fn dsyrk_(
    uplo: *const c_char, trans: *const c_char, n: *const c_int, k: *const c_int, alpha: *const f64,
    a: *const f64, lda: *const c_int, beta: *const f64, c: *mut f64, ldc: *const c_int,
) {
    let up = ch(uplo) == b'U';
    let t = ch(trans) != b'N';
    let (n, k, lda, ldc) = (*n as usize, *k as usize, *lda as usize, *ldc as usize);
    let (alpha, beta) = (*alpha, *beta);
    for j in 0..n {
        for i in 0..n {
            if (i <= j) != up && i != j {
                continue;
            }
            let mut s = 0.0;
            for l in 0..k {
                let (ai, aj) = if t {
                    (*a.add(idx(l, i, lda)), *a.add(idx(l, j, lda)))
                } else {
                    (*a.add(idx(i, l, lda)), *a.add(idx(j, l, lda)))
                };
                s += ai * aj;
            }
            let cp = c.add(idx(i, j, ldc));
            *cp = if beta == 0.0 { alpha * s } else { alpha * s + beta * *cp };
        }
    }
}

#[no_mangle]
pub unsafe extern "C" fn dsyr2k_(
    uplo: *const c_char, trans: *const c_char, n: *const c_int, k: *const c_int, alpha: *const f64,
    a: *const f64, lda: *const c_int, b: *const f64, ldb: *const c_int, beta: *const f64,
    c: *mut f64, ldc: *const c_int,
) {
    let up = ch(uplo) == b'U';
    let t = ch(trans) != b'N';
    let (n, k, lda, ldb, ldc) = (*n as usize, *k as usize, *lda as usize, *ldb as usize, *ldc as usize);
    let (alpha, beta) = (*alpha, *beta);
    for j in 0..n {
        for i in 0..n {
            if (i <= j) != up && i != j {
                continue;
            }
            let mut s = 0.0;
            for l in 0..k {
                let (ai, aj, bi, bj) = if t {
                    (*a.add(idx(l, i, lda)), *a.add(idx(l, j, lda)), *b.add(idx(l, i, ldb)), *b.add(idx(l, j, ldb)))
                } else {
                    (*a.add(idx(i, l, lda)), *a.add(idx(j, l, lda)), *b.add(idx(i, l, ldb)), *b.add(idx(j, l, ldb)))
                };
                s += ai * bj + bi * aj;
            }
            let cp = c.add(idx(i, j, ldc));
            *cp = if beta == 0.0 { alpha * s } else { alpha * s + beta * *cp };
        }
    }
}

// ---------------------------------------------------------------- LAPACK

#[no_mangle]
pub unsafe extern "C" fn dpotrf_(uplo: *const c_char, n: *const c_int, a: *mut f64, lda: *const c_int, info: *mut c_int) {
    let up = ch(uplo) == b'U';
    let (n, lda) = (*n as usize, *lda as usize);
    *info = 0;
    // work on the lower-triangular view g(i,j), i>=j ; for 'U' the view is the transpose
    let at = |i: usize, j: usize| if up { idx(j, i, lda) } else { idx(i, j, lda) };
    for j in 0..n {
        let mut d = *a.add(at(j, j));
        for l in 0..j {
            let v = *a.add(at(j, l));
            d -= v * v;
        }
        if !(d > 0.0) {
            *info = (j + 1) as c_int;
            return;
        }
        let d = d.sqrt();
        *a.add(at(j, j)) = d;
        for i in j + 1..n {
            let mut s = *a.add(at(i, j));
            for l in 0..j {
                s -= *a.add(at(i, l)) * *a.add(at(j, l));
            }
            *a.add(at(i, j)) = s / d;
        }
    }
}

#[no_mangle]
pub unsafe extern "C" fn dpotrs_(
    uplo: *const c_char, n: *const c_int, nrhs: *const c_int, a: *const f64, lda: *const c_int,
    b: *mut f64, ldb: *const c_int, info: *mut c_int,
) {
    let up = ch(uplo) == b'U';
    let (n, nrhs, lda, ldb) = (*n as usize, *nrhs as usize, *lda as usize, *ldb as usize);
    *info = 0;
    let at = |i: usize, j: usize| if up { idx(j, i, lda) } else { idx(i, j, lda) };
    for c in 0..nrhs {
        // L y = b
        for i in 0..n {
            let mut s = *b.add(idx(i, c, ldb));
            for l in 0..i {
                s -= *a.add(at(i, l)) * *b.add(idx(l, c, ldb));
            }
            *b.add(idx(i, c, ldb)) = s / *a.add(at(i, i));
        }
        // L' x = y
        for i in (0..n).rev() {
            let mut s = *b.add(idx(i, c, ldb));
            for l in i + 1..n {
                s -= *a.add(at(l, i)) * *b.add(idx(l, c, ldb));
            }
            *b.add(idx(i, c, ldb)) = s / *a.add(at(i, i));
        }
    }
}

#[no_mangle]
pub unsafe extern "C" fn dgesv_(
    n: *const c_int, nrhs: *const c_int, a: *mut f64, lda: *const c_int, ipiv: *mut c_int,
    b: *mut f64, ldb: *const c_int, info: *mut c_int,
) {
    let (n, nrhs, lda, ldb) = (*n as usize, *nrhs as usize, *lda as usize, *ldb as usize);
    *info = 0;
    for k in 0..n {
        let mut p = k;
        for i in k + 1..n {
            if (*a.add(idx(i, k, lda))).abs() > (*a.add(idx(p, k, lda))).abs() {
                p = i;
            }
        }
        *ipiv.add(k) = (p + 1) as c_int;
        if *a.add(idx(p, k, lda)) == 0.0 {
            if *info == 0 {
                *info = (k + 1) as c_int;
            }
            continue;
        }
        if p != k {
            for j in 0..n {
                let t = *a.add(idx(k, j, lda));
                *a.add(idx(k, j, lda)) = *a.add(idx(p, j, lda));
                *a.add(idx(p, j, lda)) = t;
            }
            for j in 0..nrhs {
                let t = *b.add(idx(k, j, ldb));
                *b.add(idx(k, j, ldb)) = *b.add(idx(p, j, ldb));
                *b.add(idx(p, j, ldb)) = t;
            }
        }
        let piv = *a.add(idx(k, k, lda));
        for i in k + 1..n {
            let f = *a.add(idx(i, k, lda)) / piv;
            *a.add(idx(i, k, lda)) = f;
            if f != 0.0 {
                for j in k + 1..n {
                    *a.add(idx(i, j, lda)) -= f * *a.add(idx(k, j, lda));
                }
                for j in 0..nrhs {
                    *b.add(idx(i, j, ldb)) -= f * *b.add(idx(k, j, ldb));
                }
            }
        }
    }
    if *info != 0 {
        return;
    }
    for c in 0..nrhs {
        for i in (0..n).rev() {
            let mut s = *b.add(idx(i, c, ldb));
            for j in i + 1..n {
                s -= *a.add(idx(i, j, lda)) * *b.add(idx(j, c, ldb));
            }
            *b.add(idx(i, c, ldb)) = s / *a.add(idx(i, i, lda));
        }
    }
}

/// cyclic Jacobi on a dense symmetric n x n matrix (row-major copy). returns (ascending eigenvalues, V columns)
fn jacobi_eig(n: usize, a: &mut [f64]) -> (Vec<f64>, Vec<f64>) {
    let mut v = vec![0.0; n * n];
    for i in 0..n {
        v[i * n + i] = 1.0;
    }
    for _sweep in 0..200 {
        let mut off = 0.0;
        let mut scale = 0.0f64;
        for i in 0..n {
            for j in 0..n {
                if i != j {
                    off += a[i * n + j] * a[i * n + j];
                }
                scale = scale.max(a[i * n + j].abs());
            }
        }
        if off.sqrt() <= 1e-18 * scale || off == 0.0 {
            break;
        }
        for p in 0..n {
            for q in p + 1..n {
                let apq = a[p * n + q];
                if apq == 0.0 {
                    continue;
                }
                let theta = (a[q * n + q] - a[p * n + p]) / (2.0 * apq);
                let t = if theta == 0.0 {
                    1.0
                } else if theta.is_infinite() {
                    0.0
                } else {
                    theta.signum() / (theta.abs() + (theta * theta + 1.0).sqrt())
                };
                let c = 1.0 / (t * t + 1.0).sqrt();
                let s = t * c;
                for k in 0..n {
                    let (akp, akq) = (a[k * n + p], a[k * n + q]);
                    a[k * n + p] = c * akp - s * akq;
                    a[k * n + q] = s * akp + c * akq;
                }
                for k in 0..n {
                    let (apk, aqk) = (a[p * n + k], a[q * n + k]);
                    a[p * n + k] = c * apk - s * aqk;
                    a[q * n + k] = s * apk + c * aqk;
                }
                for k in 0..n {
                    let (vkp, vkq) = (v[k * n + p], v[k * n + q]);
                    v[k * n + p] = c * vkp - s * vkq;
                    v[k * n + q] = s * vkp + c * vkq;
                }
            }
        }
    }
    let mut order: Vec<usize> = (0..n).collect();
    order.sort_by(|&i, &j| a[i * n + i].partial_cmp(&a[j * n + j]).unwrap_or(std::cmp::Ordering::Equal));
    let w: Vec<f64> = order.iter().map(|&i| a[i * n + i]).collect();
    let mut vs = vec![0.0; n * n];
    for (c, &i) in order.iter().enumerate() {
        for k in 0..n {
            vs[k * n + c] = v[k * n + i];
        }
    }
    (w, vs)
}

#[no_mangle]
pub unsafe extern "C" fn dsyevr_(
    jobz: *const c_char, _range: *const c_char, uplo: *const c_char, n: *const c_int, a: *mut f64,
    lda: *const c_int, _vl: *const f64, _vu: *const f64, _il: *const c_int, _iu: *const c_int,
    _abstol: *const f64, m: *mut c_int, w: *mut f64, z: *mut f64, ldz: *const c_int, _isuppz: *mut c_int,
    work: *mut f64, lwork: *const c_int, iwork: *mut c_int, liwork: *const c_int, info: *mut c_int,
) {
    let nn = *n as usize;
    *info = 0;
    if *lwork == -1 || *liwork == -1 {
        *work = std::cmp::max(1, 26 * nn) as f64;
        *iwork = std::cmp::max(1, 10 * nn) as c_int;
        return;
    }
    let up = ch(uplo) == b'U';
    let lda = *lda as usize;
    let mut s = vec![0.0; nn * nn];
    for i in 0..nn {
        for j in 0..nn {
            let (r, c) = if (i <= j) == up { (i, j) } else { (j, i) };
            s[i * nn + j] = *a.add(idx(r, c, lda));
        }
    }
    if s.iter().any(|v| !v.is_finite()) {
        // like reference LAPACK, no input screening: non-finite data gives non-finite output, info = 0
        *m = nn as c_int;
        for i in 0..nn {
            *w.add(i) = f64::NAN;
        }
        if ch(jobz) == b'V' {
            let ldz = *ldz as usize;
            for c in 0..nn {
                for i in 0..nn {
                    *z.add(idx(i, c, ldz)) = f64::NAN;
                }
            }
        }
        return;
    }
    // like DSYEVR, scale the matrix to unit size first so that nothing overflows
    let amax = s.iter().fold(0.0f64, |t, v| t.max(v.abs()));
    let sc = if amax > 0.0 { amax } else { 1.0 };
    for v in s.iter_mut() {
        *v /= sc;
    }
    let orig = s.clone();
    let (mut vals, vecs) = jacobi_eig(nn, &mut s);
    *m = nn as c_int;
    // self-check: || A v - lambda v || small
    let scale = orig.iter().fold(0.0f64, |t, v| t.max(v.abs()));
    for c in 0..nn {
        for i in 0..nn {
            let mut r = 0.0;
            for k in 0..nn {
                r += orig[i * nn + k] * vecs[k * nn + c];
            }
            r -= vals[c] * vecs[i * nn + c];
            if !(r.abs() <= 1e-9 * (scale + 1e-300) * (nn as f64)) {
                die(&format!("dsyevr residual {:e} for scaled matrix {:?}", r, orig));
            }
        }
    }
    for v in vals.iter_mut() {
        *v *= sc;
    }
    for i in 0..nn {
        *w.add(i) = vals[i];
    }
    if ch(jobz) == b'V' {
        let ldz = *ldz as usize;
        for c in 0..nn {
            for i in 0..nn {
                *z.add(idx(i, c, ldz)) = vecs[i * nn + c];
            }
        }
    }
}

/// economy SVD of an m x n column-major matrix by one-sided Jacobi. returns (U m x r, S r, Vt r x n), r=min(m,n)
fn svd_econ(m: usize, n: usize, a: &[f64], lda: usize) -> (Vec<f64>, Vec<f64>, Vec<f64>) {
    if m < n {
        // svd of A' = V S U'
        let mut at = vec![0.0; n * m];
        for i in 0..m {
            for j in 0..n {
                at[idx(j, i, n)] = a[idx(i, j, lda)];
            }
        }
        let (u2, s, vt2) = svd_econ(n, m, &at, n); // A' = u2 s vt2 ; A = vt2' s u2'
        let r = m;
        let mut u = vec![0.0; m * r];
        let mut vt = vec![0.0; r * n];
        for i in 0..m {
            for c in 0..r {
                u[idx(i, c, m)] = vt2[idx(c, i, r)];
            }
        }
        for c in 0..r {
            for j in 0..n {
                vt[idx(c, j, r)] = u2[idx(j, c, n)];
            }
        }
        return (u, s, vt);
    }
    // m >= n : rotate columns of W (= A V) until orthogonal
    let r = n;
    let mut w = vec![0.0; m * n];
    for i in 0..m {
        for j in 0..n {
            w[idx(i, j, m)] = a[idx(i, j, lda)];
        }
    }
    let mut v = vec![0.0; n * n];
    for i in 0..n {
        v[idx(i, i, n)] = 1.0;
    }
    for _sweep in 0..200 {
        let mut rotated = false;
        for p in 0..n {
            for q in p + 1..n {
                let (mut alpha, mut beta, mut gamma) = (0.0, 0.0, 0.0);
                for i in 0..m {
                    let (wp, wq) = (w[idx(i, p, m)], w[idx(i, q, m)]);
                    alpha += wp * wp;
                    beta += wq * wq;
                    gamma += wp * wq;
                }
                if gamma == 0.0 || gamma.abs() <= 1e-17 * (alpha * beta).sqrt() {
                    continue;
                }
                rotated = true;
                let zeta = (beta - alpha) / (2.0 * gamma);
                let t = zeta.signum() / (zeta.abs() + (1.0 + zeta * zeta).sqrt());
                let t = if zeta == 0.0 { 1.0 } else { t };
                let c = 1.0 / (1.0 + t * t).sqrt();
                let s = c * t;
                for i in 0..m {
                    let (wp, wq) = (w[idx(i, p, m)], w[idx(i, q, m)]);
                    w[idx(i, p, m)] = c * wp - s * wq;
                    w[idx(i, q, m)] = s * wp + c * wq;
                }
                for i in 0..n {
                    let (vp, vq) = (v[idx(i, p, n)], v[idx(i, q, n)]);
                    v[idx(i, p, n)] = c * vp - s * vq;
                    v[idx(i, q, n)] = s * vp + c * vq;
                }
            }
        }
        if !rotated {
            break;
        }
    }
    let mut sv: Vec<(f64, usize)> = (0..n)
        .map(|j| ((0..m).map(|i| w[idx(i, j, m)] * w[idx(i, j, m)]).sum::<f64>().sqrt(), j))
        .collect();
    sv.sort_by(|a, b| b.0.partial_cmp(&a.0).unwrap_or(std::cmp::Ordering::Equal));
    let smax = sv.first().map(|x| x.0).unwrap_or(0.0);
    let mut u = vec![0.0; m * r];
    let mut s = vec![0.0; r];
    let mut vt = vec![0.0; r * n];
    for (c, &(sig, j)) in sv.iter().enumerate() {
        s[c] = sig;
        for i in 0..n {
            vt[idx(c, i, r)] = v[idx(i, j, n)];
        }
        if sig > 1e-300 && sig > 1e-15 * smax {
            for i in 0..m {
                u[idx(i, c, m)] = w[idx(i, j, m)] / sig;
            }
        } else {
            // complete with a unit vector orthogonal to the previous columns
            for e in 0..m {
                let mut cand = vec![0.0; m];
                cand[e] = 1.0;
                for pc in 0..c {
                    let d: f64 = (0..m).map(|i| cand[i] * u[idx(i, pc, m)]).sum();
                    for i in 0..m {
                        cand[i] -= d * u[idx(i, pc, m)];
                    }
                }
                let nr: f64 = cand.iter().map(|x| x * x).sum::<f64>().sqrt();
                if nr > 0.5 {
                    for i in 0..m {
                        u[idx(i, c, m)] = cand[i] / nr;
                    }
                    break;
                }
            }
        }
    }
    (u, s, vt)
}

unsafe fn gesxx(
    m: *const c_int, n: *const c_int, a: *mut f64, lda: *const c_int, s: *mut f64, u: *mut f64,
    ldu: *const c_int, vt: *mut f64, ldvt: *const c_int, work: *mut f64, lwork: *const c_int, info: *mut c_int,
) {
    let (m, n, lda, ldu, ldvt) = (*m as usize, *n as usize, *lda as usize, *ldu as usize, *ldvt as usize);
    *info = 0;
    if *lwork == -1 {
        *work = std::cmp::max(1, 8 * std::cmp::max(m, n)) as f64;
        return;
    }
    let r = std::cmp::min(m, n);
    let av: Vec<f64> = (0..lda * n).map(|k| *a.add(k)).collect();
    if av.iter().any(|v| !v.is_finite()) {
        for c in 0..r {
            *s.add(c) = f64::NAN;
            for i in 0..m {
                *u.add(idx(i, c, ldu)) = f64::NAN;
            }
            for j in 0..n {
                *vt.add(idx(c, j, ldvt)) = f64::NAN;
            }
        }
        return;
    }
    let amax = av.iter().fold(0.0f64, |t, v| t.max(v.abs()));
    let sc = if amax > 0.0 { amax } else { 1.0 };
    let av: Vec<f64> = av.iter().map(|v| v / sc).collect();
    let (uu, mut ss, vv) = svd_econ(m, n, &av, lda);
    // self-check: A = U S Vt
    let scale = av.iter().fold(0.0f64, |t, v| t.max(v.abs()));
    for i in 0..m {
        for j in 0..n {
            let mut x = 0.0;
            for c in 0..r {
                x += uu[idx(i, c, m)] * ss[c] * vv[idx(c, j, r)];
            }
            if !((x - av[idx(i, j, lda)]).abs() <= 1e-9 * (scale + 1e-300) * (m + n) as f64) {
                die("gesdd/gesvd reconstruction");
            }
        }
    }
    for v in ss.iter_mut() {
        *v *= sc;
    }
    for c in 0..r {
        *s.add(c) = ss[c];
        for i in 0..m {
            *u.add(idx(i, c, ldu)) = uu[idx(i, c, m)];
        }
        for j in 0..n {
            *vt.add(idx(c, j, ldvt)) = vv[idx(c, j, r)];
        }
    }
}

#[no_mangle]
pub unsafe extern "C" fn dgesdd_(
    _jobz: *const c_char, m: *const c_int, n: *const c_int, a: *mut f64, lda: *const c_int, s: *mut f64,
    u: *mut f64, ldu: *const c_int, vt: *mut f64, ldvt: *const c_int, work: *mut f64, lwork: *const c_int,
    _iwork: *mut c_int, info: *mut c_int,
) {
    gesxx(m, n, a, lda, s, u, ldu, vt, ldvt, work, lwork, info)
}

#[no_mangle]
pub unsafe extern "C" fn dgesvd_(
    _jobu: *const c_char, _jobvt: *const c_char, m: *const c_int, n: *const c_int, a: *mut f64,
    lda: *const c_int, s: *mut f64, u: *mut f64, ldu: *const c_int, vt: *mut f64, ldvt: *const c_int,
    work: *mut f64, lwork: *const c_int, info: *mut c_int,
) {
    gesxx(m, n, a, lda, s, u, ldu, vt, ldvt, work, lwork, info)
}

// single precision twins: never called (the harness only instantiates f64); present so that the link succeeds
macro_rules! stub {
    ($($name:ident),*) => { $(
        #[no_mangle]
        pub unsafe extern "C" fn $name() { die(concat!(stringify!($name), " called (f32 is not supported by the harness shims)")); }
    )* };
}
stub!(sgemm_, sgemv_, ssymv_, ssyrk_, ssyr2k_, spotrf_, spotrs_, sgesv_, ssyevr_, sgesdd_, sgesvd_);
