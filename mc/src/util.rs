//! Shared explorer machinery: case spaces, the sharded exhaustive runner,
//! violation confirmation (replay twice), known findings, evidence files.

use serde_json::{json, Value};
use std::cell::RefCell;
use std::collections::BTreeMap;
use std::panic::{catch_unwind, AssertUnwindSafe};
use std::sync::atomic::{AtomicBool, AtomicU64, Ordering};
use std::sync::Mutex;
use std::time::Instant;

/// directory holding known_findings.json, evidence/ and replay/ (the check script passes its own location)
pub fn verif_dir() -> String {
    std::env::var("VERIF_DIR").unwrap_or_else(|_| "/verif".to_string())
}

/// property currently being explored (for the hang watchdog)
pub static CURRENT_PROPERTY: std::sync::OnceLock<String> = std::sync::OnceLock::new();

/// a single case running longer than this is reported as a hang (violation of termination)
pub fn hang_limit_s() -> u64 {
    std::env::var("VERIF_HANG_S").ok().and_then(|s| s.parse().ok()).unwrap_or(120)
}

#[derive(Clone, Debug)]
pub struct Violation {
    /// stable key used for known-finding matching ("what fails", coarse)
    pub key: String,
    /// human readable detail
    pub detail: String,
}

impl Violation {
    pub fn new(key: impl Into<String>, detail: impl Into<String>) -> Self {
        Self {
            key: key.into(),
            detail: detail.into(),
        }
    }
}

pub type CaseResult = Result<(), Violation>;

#[macro_export]
macro_rules! ensure {
    ($cond:expr, $key:expr, $($arg:tt)*) => {
        if !($cond) {
            return Err($crate::util::Violation::new($key, format!($($arg)*)));
        }
    };
}

/// per-thread statistics
#[derive(Default, Clone)]
pub struct Ctx {
    pub outcomes: BTreeMap<String, u64>,
    pub transitions: u64,
    pub nontrivial: u64,
    pub extra: BTreeMap<String, f64>, // max-accumulated measurements
}

impl Ctx {
    pub fn outcome(&mut self, s: &str) {
        *self.outcomes.entry(s.to_string()).or_insert(0) += 1;
    }
    pub fn outcome_n(&mut self, s: &str, n: u64) {
        *self.outcomes.entry(s.to_string()).or_insert(0) += n;
    }
    pub fn measure_max(&mut self, k: &str, v: f64) {
        let e = self.extra.entry(k.to_string()).or_insert(f64::NEG_INFINITY);
        if v > *e {
            *e = v;
        }
    }
    pub fn merge(&mut self, o: &Ctx) {
        for (k, v) in &o.outcomes {
            *self.outcomes.entry(k.clone()).or_insert(0) += v;
        }
        self.transitions += o.transitions;
        self.nontrivial += o.nontrivial;
        for (k, v) in &o.extra {
            let e = self.extra.entry(k.clone()).or_insert(f64::NEG_INFINITY);
            if *v > *e {
                *e = *v;
            }
        }
    }
}

/// A finite, completely enumerable case space with a bijection id <-> case.
pub trait Space: Sync {
    fn name(&self) -> String;
    fn size(&self) -> u64;
    /// run one case on the real code and judge it with the oracle
    fn run(&self, id: u64, ctx: &mut Ctx) -> CaseResult;
    /// decoded case, for replay artefacts and evidence samples
    fn describe(&self, id: u64) -> Value;
    /// what bound this space realises (reported in evidence)
    fn bound(&self) -> Value {
        json!({})
    }
    /// a labelled non-exhaustive supplement (seeded sampling); never decides alone
    fn is_sampling_supplement(&self) -> bool {
        false
    }
    /// run in the main thread only (touches process-global state)
    fn serial(&self) -> bool {
        false
    }
    /// free-form dump of what happens in one case (only used by `replay` with VERIF_DEBUG)
    fn debug(&self, _id: u64) -> String {
        String::new()
    }
}

// ------------------------------------------------------------------
// panic capture
// ------------------------------------------------------------------

thread_local! {
    static LAST_PANIC: RefCell<Option<String>> = const { RefCell::new(None) };
}

pub fn install_quiet_panic_hook() {
    std::panic::set_hook(Box::new(|info| {
        let msg = if let Some(s) = info.payload().downcast_ref::<&str>() {
            s.to_string()
        } else if let Some(s) = info.payload().downcast_ref::<String>() {
            s.clone()
        } else {
            "<non-string panic>".to_string()
        };
        let loc = info
            .location()
            .map(|l| format!("{}:{}", l.file(), l.line()))
            .unwrap_or_default();
        if std::env::var("VERIF_PANIC_TRACE").is_ok() {
            eprintln!("[panic] {} @ {} (thread {:?})", msg, loc, std::thread::current().name());
        }
        LAST_PANIC.with(|p| *p.borrow_mut() = Some(format!("{} @ {}", msg, loc)));
    }));
}

/// run f, converting a panic into Err(message @ location)
pub fn guarded<R>(f: impl FnOnce() -> R) -> Result<R, String> {
    match catch_unwind(AssertUnwindSafe(f)) {
        Ok(r) => Ok(r),
        Err(_) => Err(LAST_PANIC
            .with(|p| p.borrow_mut().take())
            .unwrap_or_else(|| "<panic>".to_string())),
    }
}

// ------------------------------------------------------------------
// known findings
// ------------------------------------------------------------------

#[derive(Clone, Debug)]
pub struct Finding {
    pub property: String,
    pub status: String, // "known" | "fixed"
    pub key: String,    // prefix-matched against Violation.key
    pub what: String,
}

pub fn load_findings() -> Vec<Finding> {
    let path = format!("{}/known_findings.json", verif_dir());
    let Ok(txt) = std::fs::read_to_string(&path) else {
        return vec![];
    };
    let v: Value = serde_json::from_str(&txt).expect("known_findings.json must parse");
    let mut out = vec![];
    for e in v["findings"].as_array().cloned().unwrap_or_default() {
        out.push(Finding {
            property: e["property"].as_str().unwrap_or("").to_string(),
            status: e["status"].as_str().unwrap_or("").to_string(),
            key: e["key"].as_str().unwrap_or("").to_string(),
            what: e["what"].as_str().unwrap_or("").to_string(),
        });
    }
    out
}

// ------------------------------------------------------------------
// the runner
// ------------------------------------------------------------------

pub struct SpaceReport {
    pub name: String,
    pub size: u64,
    pub executed: u64,
    pub complete: bool,
    pub sampling: bool,
    pub ctx: Ctx,
    pub violations: Vec<(u64, Violation)>,
    /// cases matching an open known finding: they are counted but never stop the exploration
    pub known_count: u64,
    pub wall_s: f64,
    pub bound: Value,
    pub samples: Vec<Value>,
}

pub fn nthreads() -> usize {
    std::env::var("VERIF_THREADS")
        .ok()
        .and_then(|s| s.parse().ok())
        .unwrap_or_else(|| {
            std::thread::available_parallelism()
                .map(|n| n.get())
                .unwrap_or(8)
        })
}

/// Enumerate a space completely (ids 0..size) on all cores; stop early only
/// when `deadline` passes (reported as incomplete) or >= 32 violations found.
pub fn run_space(space: &dyn Space, deadline: Option<Instant>) -> SpaceReport {
    run_space_known(space, deadline, &[])
}

/// `known`: key prefixes of open known findings of the current property. Matching cases are counted, a few are
/// kept (so that they are confirmed by replay like any other verdict), and they do not count towards the stop cap.
pub fn run_space_known(space: &dyn Space, deadline: Option<Instant>, known: &[String]) -> SpaceReport {
    let t0 = Instant::now();
    let known_count = AtomicU64::new(0);
    let size = space.size();
    let next = AtomicU64::new(0);
    let stop = AtomicBool::new(false);
    let executed = AtomicU64::new(0);
    let merged = Mutex::new(Ctx::default());
    let viols: Mutex<Vec<(u64, Violation)>> = Mutex::new(vec![]);
    let nt = if space.serial() { 1 } else { nthreads() };
    let chunk = std::cmp::max(1, std::cmp::min(4096, size / (nt as u64 * 64) + 1));
    // per-worker "current case" slots for the hang watchdog: (case id + 1, start in ms since t0)
    let slots: Vec<(AtomicU64, AtomicU64)> = (0..nt).map(|_| (AtomicU64::new(0), AtomicU64::new(0))).collect();
    let next_slot = AtomicU64::new(0);
    let done = AtomicBool::new(false);

    let worker = || {
        let my_slot = next_slot.fetch_add(1, Ordering::Relaxed) as usize % nt;
        let mut ctx = Ctx::default();
        let mut mine = 0u64;
        'outer: loop {
            if stop.load(Ordering::Relaxed) {
                break;
            }
            let lo = next.fetch_add(chunk, Ordering::Relaxed);
            if lo >= size {
                break;
            }
            let hi = std::cmp::min(size, lo + chunk);
            for id in lo..hi {
                slots[my_slot].1.store(t0.elapsed().as_millis() as u64, Ordering::Relaxed);
                slots[my_slot].0.store(id + 1, Ordering::Relaxed);
                let r = match guarded(|| space.run(id, &mut ctx)) {
                    Ok(r) => r,
                    Err(p) => Err(Violation::new(
                        "harness-uncaught-panic",
                        format!("uncaught panic: {}", p),
                    )),
                };
                mine += 1;
                if let Err(v) = r {
                    let is_known = known.iter().any(|k| v.key.starts_with(k.as_str()));
                    let mut g = viols.lock().unwrap();
                    if is_known {
                        if known_count.fetch_add(1, Ordering::Relaxed) < 4 {
                            g.push((id, v));
                        }
                        continue;
                    }
                    g.push((id, v));
                    if g.iter().filter(|(_, v)| !known.iter().any(|k| v.key.starts_with(k.as_str()))).count() >= 32 {
                        stop.store(true, Ordering::Relaxed);
                        break 'outer;
                    }
                }
            }
            if let Some(d) = deadline {
                if Instant::now() > d {
                    stop.store(true, Ordering::Relaxed);
                }
            }
        }
        slots[my_slot].0.store(0, Ordering::Relaxed);
        executed.fetch_add(mine, Ordering::Relaxed);
        merged.lock().unwrap().merge(&ctx);
    };

    let watchdog = || {
        let limit_ms = hang_limit_s() * 1000;
        let mut ticks = 0u32;
        while !done.load(Ordering::Relaxed) {
            std::thread::sleep(std::time::Duration::from_millis(2));
            ticks += 1;
            if ticks % 128 != 0 {
                continue;
            }
            let now = t0.elapsed().as_millis() as u64;
            for (cur, start) in slots.iter() {
                let c = cur.load(Ordering::Relaxed);
                let st = start.load(Ordering::Relaxed);
                if c != 0 && now.saturating_sub(st) > limit_ms && cur.load(Ordering::Relaxed) == c {
                    // a case that does not return: termination is part of what is being checked
                    let id = c - 1;
                    let prop = CURRENT_PROPERTY.get().cloned().unwrap_or_else(|| "?".into());
                    let v = Violation::new("hang", format!("case did not return within {} s", limit_ms / 1000));
                    let path = write_replay(&prop, &space.name(), id, space.describe(id), &v);
                    println!("VIOLATION property={} replay={}", prop, path);
                    println!("  space={} case={} key=hang :: case did not return within {} s (explorer aborted)", space.name(), id, limit_ms / 1000);
                    std::process::exit(1);
                }
            }
        }
    };

    std::thread::scope(|s| {
        let wd = s.spawn(watchdog);
        if nt == 1 {
            worker();
        } else {
            let hs: Vec<_> = (0..nt).map(|_| s.spawn(worker)).collect();
            for h in hs {
                let _ = h.join();
            }
        }
        done.store(true, Ordering::Relaxed);
        let _ = wd.join();
    });

    let executed = executed.load(Ordering::Relaxed);
    let mut violations = viols.into_inner().unwrap();
    violations.sort_by_key(|(id, _)| *id);
    let complete = executed == size && !stop.load(Ordering::Relaxed) || executed == size;
    let mut samples = vec![];
    if size > 0 {
        for id in [0, size / 2, size - 1] {
            samples.push(json!({"space": space.name(), "case_id": id, "case": space.describe(id)}));
        }
    }
    SpaceReport {
        name: space.name(),
        size,
        executed,
        complete,
        sampling: space.is_sampling_supplement(),
        ctx: merged.into_inner().unwrap(),
        violations,
        known_count: known_count.load(Ordering::Relaxed),
        wall_s: t0.elapsed().as_secs_f64(),
        bound: space.bound(),
        samples,
    }
}

pub struct PropRun {
    pub property: String,
    pub tier: String,
    pub seed: u64,
    pub t0: Instant,
    pub reports: Vec<SpaceReport>,
    pub assumptions: Vec<String>,
    pub notes: Vec<String>,
    /// (space, id, violation) confirmed and not a known finding
    pub new_violations: Vec<(String, u64, Violation, String)>,
    pub known_hits: BTreeMap<String, u64>,
    pub machinery_errors: Vec<String>,
}

impl PropRun {
    pub fn new(property: &str, tier: &str) -> Self {
        let _ = CURRENT_PROPERTY.set(property.to_string());
        let seed = std::env::var("VERIF_SEED")
            .ok()
            .and_then(|s| s.parse().ok())
            .unwrap_or(0);
        Self {
            property: property.to_string(),
            tier: tier.to_string(),
            seed,
            t0: Instant::now(),
            reports: vec![],
            assumptions: vec![],
            notes: vec![],
            new_violations: vec![],
            known_hits: BTreeMap::new(),
            machinery_errors: vec![],
        }
    }

    pub fn assume(&mut self, s: &str) {
        self.assumptions.push(s.to_string());
    }

    /// run one space, confirm violations by replaying each twice, classify
    pub fn explore(&mut self, space: &dyn Space, budget_s: f64) {
        let deadline = Some(Instant::now() + std::time::Duration::from_secs_f64(budget_s));
        let findings = load_findings();
        let known_keys: Vec<String> = findings.iter().filter(|f| f.property == self.property && f.status == "known").map(|f| f.key.clone()).collect();
        let rep = run_space_known(space, deadline, &known_keys);
        let mut known_seen_here = 0u64;
        for (id, v) in &rep.violations {
            // replay twice: a verdict must be reproducible
            let mut keys = vec![];
            for _ in 0..2 {
                let mut c = Ctx::default();
                let r = match guarded(|| space.run(*id, &mut c)) {
                    Ok(r) => r,
                    Err(p) => Err(Violation::new("harness-uncaught-panic", p)),
                };
                keys.push(r.err().map(|x| x.key));
            }
            if keys[0].as_deref() != Some(v.key.as_str()) || keys[1].as_deref() != Some(v.key.as_str()) {
                self.machinery_errors.push(format!(
                    "nondeterministic verdict in space {} case {}: first {:?}, replays {:?}",
                    rep.name, id, v.key, keys
                ));
                continue;
            }
            let known = findings
                .iter()
                .find(|f| f.property == self.property && f.status == "known" && v.key.starts_with(&f.key));
            if let Some(f) = known {
                // all matching cases of this space are attributed once, to the first confirmed sample
                let add = if known_seen_here == 0 { std::cmp::max(1, rep.known_count) } else { 0 };
                known_seen_here += 1;
                *self.known_hits.entry(format!("{} ({})", f.what, f.key)).or_insert(0) += add;
            } else {
                let path = write_replay(&self.property, &rep.name, *id, space.describe(*id), v);
                self.new_violations.push((rep.name.clone(), *id, v.clone(), path));
            }
        }
        eprintln!(
            "[{}] space {:<40} size {:>10} executed {:>10} {:>7.2}s viol {} {}",
            self.property,
            rep.name,
            rep.size,
            rep.executed,
            rep.wall_s,
            rep.violations.len(),
            if rep.complete { "" } else { "(INCOMPLETE: cap hit)" }
        );
        self.reports.push(rep);
    }

    /// write evidence, print verdict lines, return the exit code
    pub fn finish(self) -> i32 {
        let mut states = 0u64;
        let mut transitions = 0u64;
        let mut nontrivial = 0u64;
        let mut exhaustive = true;
        let mut outcomes: BTreeMap<String, u64> = BTreeMap::new();
        let mut spaces = vec![];
        let mut samples = vec![];
        let mut supplement_execs = 0u64;
        for r in &self.reports {
            if r.sampling {
                supplement_execs += r.executed;
            } else {
                states += r.executed;
                transitions += std::cmp::max(r.ctx.transitions, r.executed);
                nontrivial += r.ctx.nontrivial;
                if !r.complete {
                    exhaustive = false;
                }
            }
            for (k, v) in &r.ctx.outcomes {
                *outcomes.entry(format!("{}", k)).or_insert(0) += v;
            }
            spaces.push(json!({
                "space": r.name, "size": r.size, "executed": r.executed,
                "complete": r.complete, "sampling_supplement": r.sampling,
                "wall_s": (r.wall_s*1000.0).round()/1000.0,
                "bound": r.bound,
                "outcomes": r.ctx.outcomes,
                "transitions": r.ctx.transitions,
                "measured_max": r.ctx.extra,
            }));
            for s in r.samples.iter().take(2) {
                samples.push(s.clone());
            }
        }
        let distinct_outcomes = outcomes.len();
        let wall = self.t0.elapsed().as_secs_f64();
        let nviol = self.new_violations.len();
        let ev = json!({
            "property_id": self.property,
            "tier": self.tier,
            "seed": self.seed,
            "level": "model_checking",
            "coverage": {
                "states": states,
                "transitions": transitions,
                "traces_validated_against_impl": states,
                "evaluations": states,
                "distinct_nontrivial": nontrivial,
                "rule": "every case id of every listed space is executed on the real crate (the explored object is the implementation, so each execution is an implementation trace); non-trivial = the case exercised the judged behaviour (see per-space outcomes)",
                "exhaustive": exhaustive,
                "samples": samples,
                "spaces": spaces,
                "distinct_outcomes": distinct_outcomes,
                "outcome_histogram": outcomes,
                "sampling_supplement_executions": supplement_execs,
                "known_findings_hit": self.known_hits,
                "notes": self.notes,
            },
            "assumptions": self.assumptions,
            "wall_s": (wall*1000.0).round()/1000.0,
            "violations": nviol,
        });
        let dir = format!("{}/evidence", verif_dir());
        let _ = std::fs::create_dir_all(&dir);
        let path = format!("{}/{}.json", dir, self.property);
        std::fs::write(&path, serde_json::to_string_pretty(&ev).unwrap()).expect("write evidence");

        for (what, n) in &self.known_hits {
            println!("KNOWN-FINDING: property={} {} [{} cases]", self.property, what, n);
        }
        for e in &self.machinery_errors {
            println!("MACHINERY: {}", e);
        }
        for (space, id, v, path) in &self.new_violations {
            println!("VIOLATION property={} replay={}", self.property, path);
            println!("  space={} case={} key={} :: {}", space, id, v.key, v.detail);
        }
        println!(
            "[{}] {} tier: {} cases, {} transitions, {} spaces, exhaustive={}, {} outcome classes, {:.1}s, violations={}",
            self.property, self.tier, states, transitions, self.reports.len(), exhaustive, distinct_outcomes, wall, nviol
        );
        if nviol > 0 {
            1
        } else if !self.machinery_errors.is_empty() {
            2
        } else {
            0
        }
    }
}

pub fn write_replay(prop: &str, space: &str, id: u64, case: Value, v: &Violation) -> String {
    let dir = format!("{}/replay/{}", verif_dir(), prop);
    let _ = std::fs::create_dir_all(&dir);
    let sp: String = space
        .chars()
        .map(|c| if c.is_ascii_alphanumeric() || c == '-' || c == '_' { c } else { '_' })
        .collect();
    let path = format!("{}/{}-{}.json", dir, sp, id);
    let j = json!({
        "property": prop, "space": space, "case_id": id, "case": case,
        "tier": std::env::var("VERIF_TIER").unwrap_or_else(|_| "quick".into()),
        "key": v.key, "detail": v.detail,
        "replay": format!("/verif/check {} replay {}", prop, path),
    });
    let _ = std::fs::write(&path, serde_json::to_string_pretty(&j).unwrap());
    path
}

// ------------------------------------------------------------------
// mixed-radix helpers
// ------------------------------------------------------------------

/// decode id into digits with the given radices (least significant first)
pub fn unrank(mut id: u64, radices: &[u64]) -> Vec<u64> {
    let mut out = Vec::with_capacity(radices.len());
    for &r in radices {
        out.push(id % r);
        id /= r;
    }
    out
}

pub fn product(radices: &[u64]) -> u64 {
    radices.iter().product()
}

/// a tiny cursor over a mixed radix id
pub struct Digits(pub u64);
impl Digits {
    pub fn take(&mut self, radix: u64) -> u64 {
        let d = self.0 % radix;
        self.0 /= radix;
        d
    }
    pub fn pick<'a, T>(&mut self, menu: &'a [T]) -> &'a T {
        &menu[self.take(menu.len() as u64) as usize]
    }
}

/// simple deterministic PRNG (splitmix64) for labelled sampling supplements
pub struct Rng(pub u64);
impl Rng {
    pub fn next(&mut self) -> u64 {
        self.0 = self.0.wrapping_add(0x9E3779B97F4A7C15);
        let mut z = self.0;
        z = (z ^ (z >> 30)).wrapping_mul(0xBF58476D1CE4E5B9);
        z = (z ^ (z >> 27)).wrapping_mul(0x94D049BB133111EB);
        z ^ (z >> 31)
    }
    pub fn below(&mut self, n: u64) -> u64 {
        self.next() % n
    }
    pub fn unit(&mut self) -> f64 {
        (self.next() >> 11) as f64 / (1u64 << 53) as f64
    }
}
