//! Boring dense reference algebra used by the oracles.
#![allow(dead_code)]

use clarabel::algebra::CscMatrix;

#[derive(Clone, Debug, PartialEq)]
pub struct Dense {
    pub m: usize,
    pub n: usize,
    pub a: Vec<f64>, // row-major
}

impl Dense {
    pub fn zeros(m: usize, n: usize) -> Self {
        Self {
            m,
            n,
            a: vec![0.0; m * n],
        }
    }
    pub fn eye(n: usize) -> Self {
        let mut d = Self::zeros(n, n);
        for i in 0..n {
            d.a[i * n + i] = 1.0;
        }
        d
    }
    pub fn from_rows(rows: &[Vec<f64>], n: usize) -> Self {
        let m = rows.len();
        let mut d = Self::zeros(m, n);
        for (i, r) in rows.iter().enumerate() {
            assert_eq!(r.len(), n);
            for (j, v) in r.iter().enumerate() {
                d.a[i * n + j] = *v;
            }
        }
        d
    }
    #[inline]
    pub fn at(&self, i: usize, j: usize) -> f64 {
        self.a[i * self.n + j]
    }
    #[inline]
    pub fn set(&mut self, i: usize, j: usize, v: f64) {
        self.a[i * self.n + j] = v;
    }
    #[inline]
    pub fn add(&mut self, i: usize, j: usize, v: f64) {
        self.a[i * self.n + j] += v;
    }
    pub fn t(&self) -> Dense {
        let mut d = Dense::zeros(self.n, self.m);
        for i in 0..self.m {
            for j in 0..self.n {
                d.set(j, i, self.at(i, j));
            }
        }
        d
    }
    pub fn rows(&self) -> Vec<Vec<f64>> {
        (0..self.m)
            .map(|i| (0..self.n).map(|j| self.at(i, j)).collect())
            .collect()
    }
    pub fn mulvec(&self, x: &[f64]) -> Vec<f64> {
        assert_eq!(x.len(), self.n);
        (0..self.m)
            .map(|i| (0..self.n).map(|j| self.at(i, j) * x[j]).sum())
            .collect()
    }
    pub fn tmulvec(&self, x: &[f64]) -> Vec<f64> {
        assert_eq!(x.len(), self.m);
        (0..self.n)
            .map(|j| (0..self.m).map(|i| self.at(i, j) * x[i]).sum())
            .collect()
    }
    pub fn matmul(&self, o: &Dense) -> Dense {
        assert_eq!(self.n, o.m);
        let mut d = Dense::zeros(self.m, o.n);
        for i in 0..self.m {
            for k in 0..self.n {
                let v = self.at(i, k);
                if v != 0.0 {
                    for j in 0..o.n {
                        d.add(i, j, v * o.at(k, j));
                    }
                }
            }
        }
        d
    }
    /// symmetric matrix from its upper triangle (lower part of self ignored)
    pub fn sym_from_triu(&self) -> Dense {
        assert_eq!(self.m, self.n);
        let mut d = Dense::zeros(self.n, self.n);
        for i in 0..self.n {
            for j in i..self.n {
                d.set(i, j, self.at(i, j));
                d.set(j, i, self.at(i, j));
            }
        }
        d
    }
    pub fn triu(&self) -> Dense {
        let mut d = self.clone();
        for i in 0..self.m {
            for j in 0..self.n {
                if i > j {
                    d.set(i, j, 0.0);
                }
            }
        }
        d
    }
    pub fn norm_inf_all(&self) -> f64 {
        self.a.iter().fold(0.0, |m, v| f64::max(m, v.abs()))
    }
    /// canonical CSC without structural zeros
    pub fn to_csc(&self) -> CscMatrix<f64> {
        let mut colptr = vec![0usize];
        let mut rowval = vec![];
        let mut nzval = vec![];
        for j in 0..self.n {
            for i in 0..self.m {
                let v = self.at(i, j);
                if v != 0.0 {
                    rowval.push(i);
                    nzval.push(v);
                }
            }
            colptr.push(rowval.len());
        }
        CscMatrix {
            m: self.m,
            n: self.n,
            colptr,
            rowval,
            nzval,
        }
    }
    /// canonical CSC with a structural entry wherever mask is true
    pub fn to_csc_masked(&self, mask: &dyn Fn(usize, usize) -> bool) -> CscMatrix<f64> {
        let mut colptr = vec![0usize];
        let mut rowval = vec![];
        let mut nzval = vec![];
        for j in 0..self.n {
            for i in 0..self.m {
                if mask(i, j) {
                    rowval.push(i);
                    nzval.push(self.at(i, j));
                }
            }
            colptr.push(rowval.len());
        }
        CscMatrix {
            m: self.m,
            n: self.n,
            colptr,
            rowval,
            nzval,
        }
    }
}

/// dense matrix from a CSC encoding that is assumed in-bounds; duplicates are summed
pub fn csc_to_dense(a: &CscMatrix<f64>) -> Dense {
    let mut d = Dense::zeros(a.m, a.n);
    for j in 0..a.n {
        for p in a.colptr[j]..a.colptr[j + 1] {
            d.add(a.rowval[p], j, a.nzval[p]);
        }
    }
    d
}

/// independent canonical-form predicate for a raw CSC encoding
pub fn is_canonical(a: &CscMatrix<f64>) -> bool {
    if a.rowval.len() != a.nzval.len() {
        return false;
    }
    if a.colptr.len() != a.n + 1 {
        return false;
    }
    if a.colptr[0] != 0 {
        return false;
    }
    if a.colptr[a.n] != a.rowval.len() {
        return false;
    }
    for j in 0..a.n {
        if a.colptr[j] > a.colptr[j + 1] {
            return false;
        }
    }
    for j in 0..a.n {
        let (lo, hi) = (a.colptr[j], a.colptr[j + 1]);
        for p in lo..hi {
            if a.rowval[p] >= a.m {
                return false;
            }
            if p > lo && a.rowval[p - 1] >= a.rowval[p] {
                return false;
            }
        }
    }
    true
}

pub fn dot(a: &[f64], b: &[f64]) -> f64 {
    a.iter().zip(b).map(|(x, y)| x * y).sum()
}
/// dot product evaluated as if in twice the working precision (Ogita-Rump-Oishi Dot2: error-free
/// two-product via fma and two-sum): the oracle's sign tests must not be decided by cancellation
pub fn dot2(a: &[f64], b: &[f64]) -> f64 {
    let (mut p, mut s) = (0.0f64, 0.0f64);
    for (x, y) in a.iter().zip(b) {
        let h = x * y;
        let r = x.mul_add(*y, -h); // exact error of the product
        let t = p + h;
        let z = t - p;
        let q = (p - (t - z)) + (h - z); // exact error of the sum
        p = t;
        s += q + r;
    }
    let out = p + s;
    if out.is_finite() {
        out
    } else {
        dot(a, b)
    }
}
/// 2-norm that survives under- and overflow of the squares (the oracle must not lose what it judges)
pub fn norm2(a: &[f64]) -> f64 {
    let s = dot(a, a);
    if s.is_normal() {
        return s.sqrt();
    }
    let m = norm_inf(a);
    if m == 0.0 || !m.is_finite() {
        return if a.iter().any(|v| v.is_nan()) { f64::NAN } else { m };
    }
    m * a.iter().map(|x| (x / m) * (x / m)).sum::<f64>().sqrt()
}
pub fn norm_inf(a: &[f64]) -> f64 {
    a.iter().fold(0.0, |m, v| f64::max(m, v.abs()))
}

/// Jacobi eigenvalues of a symmetric dense matrix (ascending)
pub fn sym_eigvals(a: &Dense) -> Vec<f64> {
    let (vals, _) = sym_eig(a);
    vals
}

/// Jacobi eigen-decomposition: returns (eigenvalues ascending, eigenvectors as columns)
pub fn sym_eig(a: &Dense) -> (Vec<f64>, Dense) {
    let n = a.n;
    assert_eq!(a.m, n);
    let mut m = a.clone();
    let mut v = Dense::eye(n);
    for _sweep in 0..100 {
        let mut off = 0.0;
        for i in 0..n {
            for j in (i + 1)..n {
                off += m.at(i, j) * m.at(i, j);
            }
        }
        let scale = m.norm_inf_all();
        if off.sqrt() <= 1e-300 || off.sqrt() <= 1e-17 * scale {
            break;
        }
        for p in 0..n {
            for q in (p + 1)..n {
                let apq = m.at(p, q);
                if apq == 0.0 {
                    continue;
                }
                let app = m.at(p, p);
                let aqq = m.at(q, q);
                let theta = (aqq - app) / (2.0 * apq);
                let t = if theta.is_infinite() {
                    0.0
                } else {
                    theta.signum() / (theta.abs() + (theta * theta + 1.0).sqrt())
                };
                let t = if theta == 0.0 { 1.0 } else { t };
                let c = 1.0 / (t * t + 1.0).sqrt();
                let s = t * c;
                for k in 0..n {
                    let akp = m.at(k, p);
                    let akq = m.at(k, q);
                    m.set(k, p, c * akp - s * akq);
                    m.set(k, q, s * akp + c * akq);
                }
                for k in 0..n {
                    let apk = m.at(p, k);
                    let aqk = m.at(q, k);
                    m.set(p, k, c * apk - s * aqk);
                    m.set(q, k, s * apk + c * aqk);
                }
                for k in 0..n {
                    let vkp = v.at(k, p);
                    let vkq = v.at(k, q);
                    v.set(k, p, c * vkp - s * vkq);
                    v.set(k, q, s * vkp + c * vkq);
                }
            }
        }
    }
    let mut idx: Vec<usize> = (0..n).collect();
    idx.sort_by(|&i, &j| m.at(i, i).partial_cmp(&m.at(j, j)).unwrap_or(std::cmp::Ordering::Equal));
    let vals: Vec<f64> = idx.iter().map(|&i| m.at(i, i)).collect();
    let mut vv = Dense::zeros(n, n);
    for (c, &i) in idx.iter().enumerate() {
        for k in 0..n {
            vv.set(k, c, v.at(k, i));
        }
    }
    (vals, vv)
}

/// Gaussian elimination with partial pivoting; None if singular
pub fn solve_dense(a: &Dense, b: &[f64]) -> Option<Vec<f64>> {
    let n = a.n;
    assert_eq!(a.m, n);
    let mut m = a.clone();
    let mut x = b.to_vec();
    for k in 0..n {
        let mut piv = k;
        for i in k + 1..n {
            if m.at(i, k).abs() > m.at(piv, k).abs() {
                piv = i;
            }
        }
        if m.at(piv, k) == 0.0 {
            return None;
        }
        if piv != k {
            for j in 0..n {
                let t = m.at(k, j);
                m.set(k, j, m.at(piv, j));
                m.set(piv, j, t);
            }
            x.swap(k, piv);
        }
        for i in k + 1..n {
            let f = m.at(i, k) / m.at(k, k);
            if f != 0.0 {
                for j in k..n {
                    let v = m.at(i, j) - f * m.at(k, j);
                    m.set(i, j, v);
                }
                x[i] -= f * x[k];
            }
        }
    }
    for k in (0..n).rev() {
        let mut s = x[k];
        for j in k + 1..n {
            s -= m.at(k, j) * x[j];
        }
        x[k] = s / m.at(k, k);
    }
    Some(x)
}

/// svec index helpers for PSD triangle cones (column-major upper triangle, off-diagonals scaled by sqrt 2)
pub fn svec_to_mat(v: &[f64], n: usize) -> Dense {
    let mut d = Dense::zeros(n, n);
    let isqrt2 = std::f64::consts::FRAC_1_SQRT_2;
    let mut k = 0;
    for col in 0..n {
        for row in 0..=col {
            if row == col {
                d.set(row, col, v[k]);
            } else {
                d.set(row, col, v[k] * isqrt2);
                d.set(col, row, v[k] * isqrt2);
            }
            k += 1;
        }
    }
    d
}

pub fn mat_to_svec(d: &Dense) -> Vec<f64> {
    let n = d.n;
    let s2 = std::f64::consts::SQRT_2;
    let mut v = vec![];
    for col in 0..n {
        for row in 0..=col {
            if row == col {
                v.push(d.at(row, col));
            } else {
                v.push(d.at(row, col) * s2);
            }
        }
    }
    v
}
