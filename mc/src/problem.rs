//! The problem alphabet: cone atoms, problems, settings points, and conversions
//! to the crate's API types.  Everything is plain data so that cases can be written
//! into replay artefacts.
#![allow(dead_code)]

use crate::dense::*;
use clarabel::algebra::CscMatrix;
use clarabel::solver::*;
use serde_json::{json, Value};

#[derive(Clone, Debug, PartialEq)]
pub enum ConeSpec {
    Zero(usize),
    NN(usize),
    SOC(usize),
    Exp,
    Pow(f64),
    GenPow(Vec<f64>, usize),
    PSD(usize),
}

impl ConeSpec {
    pub fn numel(&self) -> usize {
        match self {
            ConeSpec::Zero(k) | ConeSpec::NN(k) | ConeSpec::SOC(k) => *k,
            ConeSpec::Exp | ConeSpec::Pow(_) => 3,
            ConeSpec::GenPow(a, d) => a.len() + d,
            ConeSpec::PSD(k) => k * (k + 1) / 2,
        }
    }
    pub fn to_api(&self) -> SupportedConeT<f64> {
        match self {
            ConeSpec::Zero(k) => ZeroConeT(*k),
            ConeSpec::NN(k) => NonnegativeConeT(*k),
            ConeSpec::SOC(k) => SecondOrderConeT(*k),
            ConeSpec::Exp => ExponentialConeT(),
            ConeSpec::Pow(a) => PowerConeT(*a),
            ConeSpec::GenPow(a, d) => GenPowerConeT(a.clone(), *d),
            ConeSpec::PSD(k) => PSDTriangleConeT(*k),
        }
    }
    pub fn is_symmetric(&self) -> bool {
        !matches!(self, ConeSpec::Exp | ConeSpec::Pow(_) | ConeSpec::GenPow(_, _))
    }
    pub fn tag(&self) -> String {
        match self {
            ConeSpec::Zero(k) => format!("Z{}", k),
            ConeSpec::NN(k) => format!("NN{}", k),
            ConeSpec::SOC(k) => format!("SOC{}", k),
            ConeSpec::Exp => "Exp".into(),
            ConeSpec::Pow(a) => format!("Pow{}", a),
            ConeSpec::GenPow(a, d) => format!("GenPow{:?}/{}", a, d),
            ConeSpec::PSD(k) => format!("PSD{}", k),
        }
    }
    /// a point in the interior of the cone (and of its dual — all atoms used are such
    /// that this point is interior to both), used for planted problems
    pub fn interior_point(&self, which: usize) -> Vec<f64> {
        // which = 0: central; 1: nearer the boundary / badly scaled
        match self {
            ConeSpec::Zero(k) => vec![0.0; *k],
            ConeSpec::NN(k) => (0..*k).map(|i| if which == 0 { 1.0 } else { [0.01, 5.0, 1.0][i % 3] }).collect(),
            ConeSpec::SOC(k) => {
                let mut v = vec![0.0; *k];
                if *k == 0 {
                    return v;
                }
                if which == 0 {
                    v[0] = 2.0;
                    for i in 1..*k {
                        v[i] = 1.0 / (*k as f64).sqrt();
                    }
                } else {
                    // norm of tail = 0.99*head
                    v[0] = 1.0;
                    for i in 1..*k {
                        v[i] = (if i % 2 == 0 { -0.99 } else { 0.99 }) / ((*k - 1) as f64).sqrt();
                    }
                }
                v
            }
            ConeSpec::Exp => {
                if which == 0 {
                    vec![-1.051383945322714, 0.556409619469370, 1.258967884768947]
                } else {
                    // primal: y e^{x/y} <= z ; dual: -u e^{v/u} <= e w with u<0
                    vec![-0.5, 1.0, 2.0]
                }
            }
            ConeSpec::Pow(a) => {
                if which == 0 {
                    vec![(1.0 + a).sqrt(), (2.0 - a).sqrt(), 0.0]
                } else {
                    vec![1.0, 2.0, 0.5]
                }
            }
            ConeSpec::GenPow(a, d) => {
                let mut v: Vec<f64> = a.iter().map(|ai| (1.0 + ai).sqrt()).collect();
                for i in 0..*d {
                    v.push(if which == 0 { 0.0 } else { 0.3 / (*d as f64) * if i % 2 == 0 { 1.0 } else { -1.0 } });
                }
                v
            }
            ConeSpec::PSD(k) => {
                let mut m = Dense::eye(*k);
                if which == 1 {
                    for i in 0..*k {
                        for j in 0..*k {
                            if i != j {
                                m.set(i, j, 0.4);
                            }
                        }
                        m.set(i, i, 1.0 + 0.5 * i as f64);
                    }
                }
                mat_to_svec(&m)
            }
        }
    }
    pub fn to_json(&self) -> Value {
        json!(self.tag())
    }
}

pub fn cones_numel(cones: &[ConeSpec]) -> usize {
    cones.iter().map(|c| c.numel()).sum()
}

#[derive(Clone, Debug)]
pub struct Prob {
    pub n: usize,
    pub m: usize,
    /// full symmetric P
    pub p: Dense,
    /// hand P to the solver as the full symmetric matrix instead of its upper triangle
    pub p_full: bool,
    pub q: Vec<f64>,
    pub a: Dense,
    pub b: Vec<f64>,
    pub cones: Vec<ConeSpec>,
}

impl Prob {
    pub fn p_csc(&self) -> CscMatrix<f64> {
        if self.p_full {
            self.p.to_csc()
        } else {
            self.p.triu().to_csc()
        }
    }
    pub fn a_csc(&self) -> CscMatrix<f64> {
        self.a.to_csc()
    }
    pub fn api_cones(&self) -> Vec<SupportedConeT<f64>> {
        self.cones.iter().map(|c| c.to_api()).collect()
    }
    pub fn to_json(&self) -> Value {
        json!({
            "n": self.n, "m": self.m, "P": self.p.rows(), "P_given_full": self.p_full,
            "q": self.q, "A": self.a.rows(), "b": self.b,
            "cones": self.cones.iter().map(|c| c.tag()).collect::<Vec<_>>(),
        })
    }
    pub fn build(&self, settings: DefaultSettings<f64>) -> DefaultSolver<f64> {
        DefaultSolver::new(&self.p_csc(), &self.q, &self.a_csc(), &self.b, &self.api_cones(), settings)
    }
    pub fn has_psd(&self) -> bool {
        self.cones.iter().any(|c| matches!(c, ConeSpec::PSD(_)))
    }
}

// ----------------------------------------------------------------------
// settings lattice
// ----------------------------------------------------------------------

#[derive(Clone, Debug, PartialEq)]
pub struct SettingsSpec {
    pub equilibrate_enable: bool,
    pub presolve_enable: bool,
    pub static_reg: bool,
    pub dynamic_reg: bool,
    pub iterative_refinement: bool,
    pub method: &'static str, // "auto" (default) | "qdldl" | "faer"
    pub tol_profile: u8,      // 0 default 1e-8, 1 loose 1e-5, 2 tight 1e-10
    pub max_step_fraction: f64,
    pub equilibrate_max_iter: u32,
    pub max_iter: u32,
    pub linesearch_backtrack_step: f64,
    pub max_threads: u32,
    pub chordal: bool,
    /// reduced ("almost") tolerances: 0 default; 1 gap abs 1e-2 / rel 1e-10; 2 gap abs 1e-10 / rel 1e-2;
    /// 3 feas 1e-2; 4 infeas abs 1e-2 / rel 1e-10; 5 infeas abs 1e-10 / rel 1e-2
    pub reduced_profile: u8,
    /// every setting that the verbose header prints takes a distinct non-default value
    pub odd_print_values: bool,
}

impl Default for SettingsSpec {
    fn default() -> Self {
        Self {
            equilibrate_enable: true,
            presolve_enable: true,
            static_reg: true,
            dynamic_reg: true,
            iterative_refinement: true,
            method: "auto",
            tol_profile: 0,
            max_step_fraction: 0.99,
            equilibrate_max_iter: 10,
            max_iter: 200,
            linesearch_backtrack_step: 0.8,
            max_threads: 0,
            chordal: false,
            reduced_profile: 0,
            odd_print_values: false,
        }
    }
}

impl SettingsSpec {
    pub fn build(&self) -> DefaultSettings<f64> {
        let mut s = DefaultSettings::<f64>::default();
        s.verbose = std::env::var("VERIF_VERBOSE").is_ok();
        s.equilibrate_enable = self.equilibrate_enable;
        s.presolve_enable = self.presolve_enable;
        s.static_regularization_enable = self.static_reg;
        s.dynamic_regularization_enable = self.dynamic_reg;
        s.iterative_refinement_enable = self.iterative_refinement;
        s.direct_solve_method = self.method.to_string();
        match self.tol_profile {
            1 => {
                s.tol_gap_abs = 1e-5;
                s.tol_gap_rel = 1e-5;
                s.tol_feas = 1e-5;
                s.tol_infeas_abs = 1e-5;
                s.tol_infeas_rel = 1e-5;
            }
            2 => {
                s.tol_gap_abs = 1e-10;
                s.tol_gap_rel = 1e-10;
                s.tol_feas = 1e-10;
                s.tol_infeas_abs = 1e-10;
                s.tol_infeas_rel = 1e-10;
            }
            3 => {
                // only feasibility is demanding: the residual tests are the binding ones
                s.tol_gap_abs = 1e-3;
                s.tol_gap_rel = 1e-3;
            }
            4 => {
                // only the gap is demanding
                s.tol_feas = 1e-3;
            }
            5 => {
                // "absolute gap only"
                s.tol_gap_abs = 1e-4;
                s.tol_gap_rel = 1e-14;
            }
            6 => {
                // "relative gap only"
                s.tol_gap_abs = 1e-14;
                s.tol_gap_rel = 1e-4;
            }
            _ => {}
        }
        s.max_step_fraction = self.max_step_fraction;
        s.equilibrate_max_iter = self.equilibrate_max_iter;
        s.max_iter = self.max_iter;
        s.linesearch_backtrack_step = self.linesearch_backtrack_step;
        s.max_threads = self.max_threads;
        s.chordal_decomposition_enable = self.chordal;
        if self.odd_print_values {
            s.tol_feas = 2e-8;
            s.tol_gap_abs = 3e-7;
            s.tol_gap_rel = 5e-6;
            s.static_regularization_constant = 3e-8;
            s.static_regularization_proportional = 7e-31;
            s.dynamic_regularization_eps = 2e-13;
            s.dynamic_regularization_delta = 4e-7;
            s.iterative_refinement_reltol = 2e-13;
            s.iterative_refinement_abstol = 3e-12;
            s.iterative_refinement_max_iter = 7;
            s.iterative_refinement_stop_ratio = 4.0;
            s.equilibrate_min_scaling = 2e-4;
            s.equilibrate_max_scaling = 3e4;
            s.time_limit = 123.5;
        }
        match self.reduced_profile {
            1 => {
                s.reduced_tol_gap_abs = 1e-2;
                s.reduced_tol_gap_rel = 1e-10;
            }
            2 => {
                s.reduced_tol_gap_abs = 1e-10;
                s.reduced_tol_gap_rel = 1e-2;
            }
            3 => s.reduced_tol_feas = 1e-2,
            4 => {
                s.reduced_tol_infeas_abs = 1e-2;
                s.reduced_tol_infeas_rel = 1e-10;
            }
            5 => {
                s.reduced_tol_infeas_abs = 1e-10;
                s.reduced_tol_infeas_rel = 1e-2;
            }
            _ => {}
        }
        s
    }
    pub fn to_json(&self) -> Value {
        json!({
            "equilibrate_enable": self.equilibrate_enable, "presolve_enable": self.presolve_enable,
            "static_regularization_enable": self.static_reg, "dynamic_regularization_enable": self.dynamic_reg,
            "iterative_refinement_enable": self.iterative_refinement, "direct_solve_method": self.method,
            "tol_profile": (["default 1e-8","loose 1e-5","tight 1e-10","gap 1e-3 / feas 1e-8","feas 1e-3 / gap 1e-8","gap abs 1e-4 / rel 1e-14","gap abs 1e-14 / rel 1e-4"][self.tol_profile as usize]),
            "max_step_fraction": self.max_step_fraction, "equilibrate_max_iter": self.equilibrate_max_iter,
            "max_iter": self.max_iter, "linesearch_backtrack_step": self.linesearch_backtrack_step,
            "max_threads": self.max_threads, "chordal_decomposition_enable": self.chordal, "every_printed_setting_non_default": self.odd_print_values,
            "reduced_tolerances": (["default","gap abs 1e-2 / rel 1e-10","gap abs 1e-10 / rel 1e-2","feas 1e-2","infeas abs 1e-2 / rel 1e-10","infeas abs 1e-10 / rel 1e-2"][self.reduced_profile as usize]),
        })
    }

    /// the single-field deviations from `self`
    pub fn single_deviations(&self) -> Vec<SettingsSpec> {
        let mut v = vec![];
        let mut push = |f: &dyn Fn(&mut SettingsSpec)| {
            let mut s = self.clone();
            f(&mut s);
            if s != *self {
                v.push(s);
            }
        };
        push(&|s| s.equilibrate_enable = !s.equilibrate_enable);
        push(&|s| s.presolve_enable = !s.presolve_enable);
        push(&|s| s.static_reg = !s.static_reg);
        push(&|s| s.dynamic_reg = !s.dynamic_reg);
        push(&|s| s.iterative_refinement = !s.iterative_refinement);
        push(&|s| s.method = "qdldl");
        push(&|s| s.method = "faer");
        push(&|s| s.tol_profile = 1);
        push(&|s| s.tol_profile = 2);
        push(&|s| s.tol_profile = 3);
        push(&|s| s.tol_profile = 4);
        push(&|s| s.max_step_fraction = 0.5);
        push(&|s| s.equilibrate_max_iter = 1);
        v
    }

    /// all settings points within `k` field deviations of the default, default first
    pub fn lattice(k: usize) -> Vec<SettingsSpec> {
        let d = SettingsSpec::default();
        let mut out = vec![d.clone()];
        if k >= 1 {
            let singles = d.single_deviations();
            out.extend(singles.iter().cloned());
            if k >= 2 {
                for s1 in &singles {
                    for s2 in s1.single_deviations() {
                        // two *different* fields changed, unordered
                        let nd = diff_count(&s2, &d);
                        if nd == 2 && !out.contains(&s2) {
                            out.push(s2);
                        }
                    }
                }
            }
        }
        out
    }
}

fn diff_count(a: &SettingsSpec, b: &SettingsSpec) -> usize {
    let mut n = 0;
    n += (a.equilibrate_enable != b.equilibrate_enable) as usize;
    n += (a.presolve_enable != b.presolve_enable) as usize;
    n += (a.static_reg != b.static_reg) as usize;
    n += (a.dynamic_reg != b.dynamic_reg) as usize;
    n += (a.iterative_refinement != b.iterative_refinement) as usize;
    n += (a.method != b.method) as usize;
    n += (a.tol_profile != b.tol_profile) as usize;
    n += (a.max_step_fraction != b.max_step_fraction) as usize;
    n += (a.equilibrate_max_iter != b.equilibrate_max_iter) as usize;
    n
}

// ----------------------------------------------------------------------
// cone lists
// ----------------------------------------------------------------------

pub fn atoms_core() -> Vec<ConeSpec> {
    vec![
        ConeSpec::Zero(1),
        ConeSpec::NN(1),
        ConeSpec::NN(2),
        ConeSpec::SOC(1),
        ConeSpec::SOC(2),
        ConeSpec::SOC(3),
        ConeSpec::Exp,
        ConeSpec::Pow(0.5),
        ConeSpec::Pow(0.25),
        ConeSpec::GenPow(vec![0.5, 0.5], 1),
        ConeSpec::NN(0),
        ConeSpec::Zero(2),
        ConeSpec::NN(3),
        ConeSpec::Zero(3),
        ConeSpec::PSD(1),
        ConeSpec::PSD(2),
        ConeSpec::SOC(5),
        ConeSpec::GenPow(vec![0.2, 0.3, 0.5], 2),
        ConeSpec::PSD(3),
    ]
}

/// every sequence of <= maxlen atoms (from `atoms`) with total rows in [minrows, maxrows]
pub fn cone_lists(atoms: &[ConeSpec], maxlen: usize, minrows: usize, maxrows: usize) -> Vec<Vec<ConeSpec>> {
    let mut out = vec![];
    fn rec(atoms: &[ConeSpec], cur: &mut Vec<ConeSpec>, rows: usize, maxlen: usize, minrows: usize, maxrows: usize, out: &mut Vec<Vec<ConeSpec>>) {
        if rows >= minrows && rows <= maxrows {
            out.push(cur.clone());
        }
        if cur.len() == maxlen {
            return;
        }
        for a in atoms {
            let r = rows + a.numel();
            if r <= maxrows {
                cur.push(a.clone());
                rec(atoms, cur, r, maxlen, minrows, maxrows, out);
                cur.pop();
            }
        }
    }
    rec(atoms, &mut vec![], 0, maxlen, minrows, maxrows, &mut out);
    out
}

/// P menu for dimension n (full symmetric matrices, all PSD)
pub fn p_menu(n: usize) -> Vec<Dense> {
    match n {
        1 => vec![Dense::zeros(1, 1), Dense::from_rows(&[vec![1.0]], 1)],
        2 => vec![
            Dense::zeros(2, 2),
            Dense::eye(2),
            Dense::from_rows(&[vec![1.0, 0.0], vec![0.0, 0.0]], 2),
            Dense::from_rows(&[vec![2.0, 1.0], vec![1.0, 2.0]], 2),
            Dense::from_rows(&[vec![1.0, 1.0], vec![1.0, 1.0]], 2),
        ],
        3 => vec![
            Dense::zeros(3, 3),
            Dense::eye(3),
            Dense::from_rows(&[vec![2.0, -1.0, 0.0], vec![-1.0, 2.0, -1.0], vec![0.0, -1.0, 2.0]], 3),
            Dense::from_rows(&[vec![1.0, 0.0, 1.0], vec![0.0, 0.0, 0.0], vec![1.0, 0.0, 1.0]], 3),
        ],
        _ => vec![Dense::zeros(n, n), Dense::eye(n)],
    }
}
