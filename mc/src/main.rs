#[macro_use]
mod util;
mod blas_shim;
mod dense;
mod oracle;
mod problem;
mod solve;
mod seams;
mod jets;
mod props;

fn main() {
    util::install_quiet_panic_hook();
    let args: Vec<String> = std::env::args().collect();
    let code = match args.get(1).map(|s| s.as_str()) {
        Some("run") => {
            let id = args.get(2).expect("property id");
            let tier = args.get(3).map(|s| s.as_str()).unwrap_or("quick");
            match props::find(id) {
                Some(def) => props::run_prop(&def, tier),
                None => {
                    eprintln!("unknown property {}", id);
                    2
                }
            }
        }
        Some("c05child") => props::c05::child(args.get(2).expect("space"), args.get(3).expect("id").parse().expect("id")),
        Some("c20child") => props::c20::child(args.get(2).expect("space"), args.get(3).expect("id").parse().expect("id")),
        Some("dbg08") => { props::c08::debug_scalings(); 0 }
        Some("replay") => props::replay(args.get(2).expect("path")),
        Some("list") => {
            for p in props::all() {
                println!("{}", p.id);
            }
            0
        }
        _ => {
            eprintln!("usage: clmc run <ID> quick|thorough | replay <path> | list");
            2
        }
    };
    std::process::exit(code);
}
