//! Running the real solver on a case and judging the outcome (shared by C01-C07, C09...).
#![allow(dead_code)]

use crate::dense::*;
use crate::oracle::*;
use crate::problem::*;
use crate::util::*;
use clarabel::solver::*;
use clarabel::verif_hooks::{observer_arm, observer_take, IterRecord};

#[derive(Clone, Debug)]
pub struct Run {
    pub status: SolverStatus,
    pub x: Vec<f64>,
    pub s: Vec<f64>,
    pub z: Vec<f64>,
    pub obj_val: f64,
    pub obj_val_dual: f64,
    pub iterations: u32,
    pub r_prim: f64,
    pub r_dual: f64,
    pub solve_time: f64,
    pub info: DefaultInfo<f64>,
    /// internal iterates seen by Info::update (one per loop pass), if observed
    pub iters: Vec<IterRecord>,
    /// tau, kappa of the internal variables after post-processing
    pub tau_after: f64,
    pub kappa_after: f64,
    pub equil_c: f64,
    pub equil_d: Vec<f64>,
    pub equil_e: Vec<f64>,
    pub internal_m: usize,
    pub internal_n: usize,
}

pub fn status_name(s: SolverStatus) -> &'static str {
    match s {
        SolverStatus::Unsolved => "Unsolved",
        SolverStatus::Solved => "Solved",
        SolverStatus::PrimalInfeasible => "PrimalInfeasible",
        SolverStatus::DualInfeasible => "DualInfeasible",
        SolverStatus::AlmostSolved => "AlmostSolved",
        SolverStatus::AlmostPrimalInfeasible => "AlmostPrimalInfeasible",
        SolverStatus::AlmostDualInfeasible => "AlmostDualInfeasible",
        SolverStatus::MaxIterations => "MaxIterations",
        SolverStatus::MaxTime => "MaxTime",
        SolverStatus::NumericalError => "NumericalError",
        SolverStatus::InsufficientProgress => "InsufficientProgress",
    }
}

pub fn extract(solver: &DefaultSolver<f64>, iters: Vec<IterRecord>) -> Run {
    let sol = &solver.solution;
    Run {
        status: sol.status,
        x: sol.x.clone(),
        s: sol.s.clone(),
        z: sol.z.clone(),
        obj_val: sol.obj_val,
        obj_val_dual: sol.obj_val_dual,
        iterations: sol.iterations,
        r_prim: sol.r_prim,
        r_dual: sol.r_dual,
        solve_time: sol.solve_time,
        info: solver.info.clone(),
        iters,
        tau_after: solver.variables.τ,
        kappa_after: solver.variables.κ,
        equil_c: solver.data.equilibration.c,
        equil_d: solver.data.equilibration.d.clone(),
        equil_e: solver.data.equilibration.e.clone(),
        internal_m: solver.data.m,
        internal_n: solver.data.n,
    }
}

/// construct + solve through the public API; a panic is returned as Err(message)
pub fn run_solver(p: &Prob, ss: &SettingsSpec, observe: bool) -> Result<Run, String> {
    let settings = ss.build();
    guarded(|| {
        let mut solver = p.build(settings);
        if observe {
            observer_arm();
        }
        solver.solve();
        let iters = if observe { observer_take() } else { vec![] };
        extract(&solver, iters)
    })
    .map_err(|e| {
        let _ = observer_take();
        e
    })
}

pub const SLACK_REL: f64 = 1e-6;

pub fn cap_b(p: &Prob, bound: f64) -> Prob {
    let mut q = p.clone();
    for v in q.b.iter_mut() {
        *v = f64::min(*v, bound);
    }
    q
}

fn lt_tol(value: f64, tol: f64, abs: f64) -> bool {
    value < tol * (1.0 + SLACK_REL) + abs
}

pub fn all_finite(v: &[f64]) -> bool {
    v.iter().all(|x| x.is_finite())
}

/// C01: a Solved verdict is a certified approximate optimum of the user's problem
pub fn judge_c01(p: &Prob, ss: &SettingsSpec, r: &Run, bound: f64) -> CaseResult {
    // right-hand sides above the infinity bound are documented to be capped at it
    let capped = cap_b(p, bound);
    let p = &capped;
    if r.status != SolverStatus::Solved {
        return Ok(());
    }
    let st = ss.build();
    ensure!(r.x.len() == p.n && r.s.len() == p.m && r.z.len() == p.m, "solved-vector-lengths", "{} {} {}", r.x.len(), r.s.len(), r.z.len());
    let skip = expected_dropped(&p.cones, &p.b, bound, ss.presolve_enable);
    // dropped rows: z=0, s=bound
    for i in 0..p.m {
        if skip[i] {
            ensure!(r.z[i] == 0.0 && r.s[i] == bound, "solved-dropped-row-values", "row {} s={} z={}", i, r.s[i], r.z[i]);
        }
    }
    ensure!(all_finite(&r.x) && all_finite(&r.s) && all_finite(&r.z), "solved-nonfinite", "x={:?} s={:?} z={:?}", r.x, r.s, r.z);
    let ev = kkt_eval(p, &r.x, &r.s, &r.z, &skip);
    // rounding allowance: the internal and external evaluations differ by rounding of the summed terms
    let den_p = f64::max(1.0, ev.normb_inf + ev.normx + ev.norms);
    let den_d = f64::max(1.0, ev.normq_inf + ev.normx + ev.normz);
    let abs_p = round_allow(ev.terms, ev.mag_rp) / den_p;
    let abs_d = round_allow(ev.terms, ev.mag_rd) / den_d;
    ensure!(
        lt_tol(ev.res_primal, st.tol_feas, abs_p),
        "solved-primal-residual",
        "||Ax+s-b||/max(1,..) = {:e} !< tol_feas {:e}; x={:?} s={:?}",
        ev.res_primal,
        st.tol_feas,
        r.x,
        r.s
    );
    ensure!(
        lt_tol(ev.res_dual, st.tol_feas, abs_d),
        "solved-dual-residual",
        "||Px+A'z+q||/max(1,..) = {:e} !< tol_feas {:e}; x={:?} z={:?}",
        ev.res_dual,
        st.tol_feas,
        r.x,
        r.z
    );
    let abs_g = round_allow(ev.terms, ev.mag_xpx + ev.mag_qtx + ev.mag_btz);
    ensure!(
        lt_tol(ev.gap_abs, st.tol_gap_abs, abs_g) || lt_tol(ev.gap_rel, st.tol_gap_rel, abs_g),
        "solved-gap",
        "gap_abs {:e} gap_rel {:e} (pcost {} dcost {}, allowance {:e})",
        ev.gap_abs,
        ev.gap_rel,
        ev.pcost,
        ev.dcost,
        abs_g
    );
    let (ms, cs) = worst_margin(&p.cones, &r.s, false, &skip);
    ensure!(ms >= -1e-9, "solved-s-outside-cone", "cone #{} ({}) margin {:e}; s={:?}", cs, p.cones[cs].tag(), ms, r.s);
    let (mz, cz) = worst_margin(&p.cones, &r.z, true, &skip);
    ensure!(mz >= -1e-9, "solved-z-outside-dual-cone", "cone #{} ({}) margin {:e}; z={:?}", cz, p.cones[cz].tag(), mz, r.z);
    Ok(())
}

/// the documented (in)feasibility-certificate test, evaluated at the solver's scale from the returned vectors:
/// with z_ret = e.z/(kappa c) the test reads  kappa c b'z < -tol_abs  and
/// kappa ||A'z|| / max(1, kappa ||z||) < tol_rel * kappa c |b'z|   (dual case analogously)
#[allow(clippy::too_many_arguments)]
pub fn certificate_tests(pinf: bool, p: &Prob, r: &Run, ev: &KktEval, skip: &[bool], kappa: f64, tol_abs: f64, tol_rel: f64, prefix: &str) -> CaseResult {
    let c = r.equil_c;
    if pinf {
        let (mz, cz) = worst_margin(&p.cones, &r.z, true, skip);
        ensure!(mz >= -1e-9, &format!("{}pinf-z-outside-dual-cone", prefix), "cone #{} ({}) margin {:e} z={:?}", cz, p.cones[cz].tag(), mz, r.z);
        // (the returned vector is itself rounded: a value of b'z below the rounding error of forming it from that
        // vector has no determinable sign, and the same allowance enters the absolute test)
        let allow_b = round_allow(ev.terms, ev.mag_btz);
        ensure!(ev.btz < allow_b, &format!("{}pinf-btz-not-negative", prefix), "b'z = {}", ev.btz);
        let dot_bz = kappa * c * ev.btz;
        let res = kappa * ev.norm_atz / f64::max(1.0, kappa * ev.normz);
        let abs = kappa * round_allow(ev.terms, ev.mag_atz) / f64::max(1.0, kappa * ev.normz);
        ensure!(dot_bz < -tol_abs * (1.0 - SLACK_REL) + kappa * c * allow_b, &format!("{}pinf-abs-test", prefix), "kappa*c*b'z = {:e} !< -tol_infeas_abs {:e}", dot_bz, tol_abs);
        ensure!(
            res < tol_rel * (-dot_bz) * (1.0 + SLACK_REL) + abs,
            &format!("{}pinf-rel-test", prefix),
            "kappa*||A'z||/max(1,kappa*||z||) = {:e} !< tol_infeas_rel*|kappa c b'z| = {:e} (kappa {:e} c {:e} z={:?})",
            res,
            tol_rel * (-dot_bz),
            kappa,
            c,
            r.z
        );
    } else {
        let (ms, cs) = worst_margin(&p.cones, &r.s, false, skip);
        ensure!(ms >= -1e-9, &format!("{}dinf-s-outside-cone", prefix), "cone #{} ({}) margin {:e} s={:?}", cs, p.cones[cs].tag(), ms, r.s);
        let allow_q = round_allow(ev.terms, ev.mag_qtx);
        ensure!(ev.qtx < allow_q, &format!("{}dinf-qtx-not-negative", prefix), "q'x = {}", ev.qtx);
        let dot_qx = kappa * c * ev.qtx;
        let res1 = c * kappa * ev.norm_px / f64::max(1.0, kappa * ev.normx);
        let res2 = kappa * ev.norm_axs / f64::max(1.0, kappa * (ev.normx + ev.norms));
        let res = f64::max(res1, res2);
        let abs = kappa * round_allow(ev.terms, ev.mag_px + ev.mag_axs) / f64::max(1.0, kappa * ev.normx);
        ensure!(dot_qx < -tol_abs * (1.0 - SLACK_REL) + kappa * c * allow_q, &format!("{}dinf-abs-test", prefix), "kappa*c*q'x = {:e} !< -tol_infeas_abs {:e}", dot_qx, tol_abs);
        ensure!(
            res < tol_rel * (-dot_qx) * (1.0 + SLACK_REL) + abs,
            &format!("{}dinf-rel-test", prefix),
            "max(c k||Px||/max(1,k||x||), k||Ax+s||/max(1,k(||x||+||s||))) = {:e} !< {:e} (kappa {:e} c {:e})",
            res,
            tol_rel * (-dot_qx),
            kappa,
            c
        );
    }
    Ok(())
}

/// C02: infeasibility verdicts carry a valid certificate, on the user's data, by the documented test
pub fn judge_c02(p: &Prob, ss: &SettingsSpec, r: &Run, bound: f64) -> CaseResult {
    // right-hand sides above the infinity bound are documented to be capped at it
    let capped = cap_b(p, bound);
    let p = &capped;
    let pinf = r.status == SolverStatus::PrimalInfeasible;
    let dinf = r.status == SolverStatus::DualInfeasible;
    if !pinf && !dinf {
        return Ok(());
    }
    let st = ss.build();
    ensure!(r.obj_val.is_nan() && r.obj_val_dual.is_nan(), "infeasible-objectives-not-nan", "{} {}", r.obj_val, r.obj_val_dual);
    ensure!(r.x.len() == p.n && r.s.len() == p.m && r.z.len() == p.m, "infeasible-vector-lengths", "");
    ensure!(all_finite(&r.x) && all_finite(&r.s) && all_finite(&r.z), "infeasible-nonfinite", "x={:?} s={:?} z={:?}", r.x, r.s, r.z);
    let skip = expected_dropped(&p.cones, &p.b, bound, ss.presolve_enable);
    let ev = kkt_eval(p, &r.x, &r.s, &r.z, &skip);
    // final (tau, kappa) before normalisation, from the observer; cross-validated against public state
    let last = r.iters.last().ok_or_else(|| Violation::new("machinery-no-observer-record", "observer saw nothing"))?;
    let (tau, kappa) = (last.tau, last.kappa);
    let kt = kappa / tau;
    ensure!(
        (kt - r.info.ktratio).abs() <= 1e-9 * kt.abs().max(1e-300) || !r.info.ktratio.is_finite(),
        "machinery-observer-disagrees-with-ktratio",
        "observer kappa/tau {} vs info.ktratio {}",
        kt,
        r.info.ktratio
    );
    ensure!(
        (r.tau_after - tau / kappa).abs() <= 1e-9 * (tau / kappa).abs() && (r.kappa_after - 1.0).abs() < 1e-12,
        "certificate-not-normalised-by-kappa",
        "after post-processing tau={} kappa={} but observed tau/kappa={}",
        r.tau_after,
        r.kappa_after,
        tau / kappa
    );
    if let Err(v) = certificate_tests(pinf, p, r, &ev, &skip, kappa, st.tol_infeas_abs, st.tol_infeas_rel, "") {
        // a kept right-hand side of 1e15 or more (a "no bound" value below the infinity bound) puts the rounding
        // noise of the solver's own dot products far above tol_infeas_abs: such cases get their own key (they are
        // the subject of an open known finding); everything else is reported under the plain key
        let huge = (0..p.m).any(|i| !skip[i] && p.b[i].abs() >= 1e15);
        if huge {
            return Err(Violation::new(&format!("huge-rhs:{}", v.key), v.detail));
        }
        return Err(v);
    }
    Ok(())
}

/// C03: the report is truthful and self-consistent on every terminal status
/// final internal tau of the run if the homogeneous iterate collapsed below 1e-100 (measured by re-running observed)
pub fn collapsed_tau(p: &Prob, ss: &SettingsSpec, judged: &Run) -> Option<f64> {
    let run = run_solver(p, ss, true).ok()?;
    // the re-run must be the judged run (the judge is also applied to update histories and fault schedules)
    if run.iterations != judged.iterations || run.r_prim.to_bits() != judged.r_prim.to_bits() || run.r_dual.to_bits() != judged.r_dual.to_bits() || run.obj_val.to_bits() != judged.obj_val.to_bits() {
        return None;
    }
    let last = run.iters.last()?;
    if last.tau.is_finite() && last.tau < 1e-100 {
        Some(last.tau)
    } else {
        None
    }
}

pub fn judge_c03(p: &Prob, ss: &SettingsSpec, r: &Run, bound: f64) -> CaseResult {
    // right-hand sides above the infinity bound are documented to be capped at it
    let p_orig = p;
    let capped = cap_b(p, bound);
    let p = &capped;
    let st = ss.build();
    ensure!(r.x.len() == p.n && r.s.len() == p.m && r.z.len() == p.m, "report-vector-lengths", "{} {} {} vs n={} m={}", r.x.len(), r.s.len(), r.z.len(), p.n, p.m);
    ensure!(r.status == r.info.status, "report-status-mismatch", "{:?} vs info {:?}", r.status, r.info.status);
    ensure!(r.iterations == r.info.iterations, "report-iterations-mismatch", "{} vs {}", r.iterations, r.info.iterations);
    ensure!(r.iterations <= ss.max_iter, "report-iterations-exceed-max_iter", "{} > {}", r.iterations, ss.max_iter);
    ensure!(r.status != SolverStatus::Unsolved, "report-unsolved-after-solve", "");
    let infeas = matches!(
        r.status,
        SolverStatus::PrimalInfeasible | SolverStatus::DualInfeasible | SolverStatus::AlmostPrimalInfeasible | SolverStatus::AlmostDualInfeasible
    );
    let skip = expected_dropped(&p.cones, &p.b, bound, ss.presolve_enable);
    if r.status == SolverStatus::NumericalError && !(all_finite(&r.x) && all_finite(&r.s) && all_finite(&r.z)) {
        return Ok(()); // nothing meaningful can be recomputed from non-finite vectors
    }
    ensure!(all_finite(&r.x) && all_finite(&r.s) && all_finite(&r.z), "report-nonfinite-vectors", "{:?}", r.status);
    let ev = kkt_eval(p, &r.x, &r.s, &r.z, &skip);
    if infeas {
        ensure!(r.obj_val.is_nan() && r.obj_val_dual.is_nan(), "report-infeasible-objectives-not-nan", "{} {}", r.obj_val, r.obj_val_dual);
    } else {
        // each figure against its own magnitude (a huge dual objective must not excuse the primal one)
        let tol_p = 1e-9 * ev.pcost.abs() + 64.0 * round_allow(ev.terms, ev.mag_xpx + ev.mag_qtx);
        let tol_d = 1e-9 * ev.dcost.abs() + 64.0 * round_allow(ev.terms, ev.mag_xpx + ev.mag_btz);
        // figures below the square root of the smallest normal number cannot be formed through squares
        const UNDERFLOW: f64 = 1e-150;
        let den_p = f64::max(1.0, ev.normb_inf + ev.normx + ev.norms);
        let den_d = f64::max(1.0, ev.normq_inf + ev.normx + ev.normz);
        let tp = 1e-6 * ev.res_primal + 64.0 * round_allow(ev.terms, ev.mag_rp) / den_p + UNDERFLOW;
        let td = 1e-6 * ev.res_dual + 64.0 * round_allow(ev.terms, ev.mag_rd) / den_d + UNDERFLOW;
        let figures = || -> CaseResult {
            ensure!((r.obj_val - ev.pcost).abs() <= tol_p, "report-obj_val", "obj_val {} vs x'Px/2+q'x {} ({:?})", r.obj_val, ev.pcost, r.status);
            ensure!((r.obj_val_dual - ev.dcost).abs() <= tol_d, "report-obj_val_dual", "obj_val_dual {} vs -b'z-x'Px/2 {} ({:?})", r.obj_val_dual, ev.dcost, r.status);
            ensure!((r.r_prim - ev.res_primal).abs() <= tp, "report-r_prim", "r_prim {:e} vs recomputed {:e} ({:?})", r.r_prim, ev.res_primal, r.status);
            ensure!((r.r_dual - ev.res_dual).abs() <= td, "report-r_dual", "r_dual {:e} vs recomputed {:e} ({:?})", r.r_dual, ev.res_dual, r.status);
            Ok(())
        };
        if let Err(v) = figures() {
            // known finding (see known_findings.json): when the homogeneous iterate has collapsed (tau below 1e-100),
            // the solver's own norms and dot products under/overflow. The collapse is measured, not inferred:
            // the case is re-run under the iterate observer.
            if let Some(tau) = collapsed_tau(p_orig, ss, r) {
                return Err(Violation::new(&format!("report-after-homogeneous-collapse:{}", v.key), format!("final internal tau = {:e}; {}", tau, v.detail)));
            }
            return Err(v);
        }
    }
    // Almost* only when the reduced tolerances are met by the returned point
    if r.status == SolverStatus::AlmostSolved {
        let abs = round_allow(ev.terms, ev.mag_rp + ev.mag_rd);
        ensure!(
            lt_tol(ev.res_primal, st.reduced_tol_feas, abs) && lt_tol(ev.res_dual, st.reduced_tol_feas, abs),
            "almostsolved-residuals",
            "res_primal {:e} res_dual {:e} vs reduced_tol_feas {:e}",
            ev.res_primal,
            ev.res_dual,
            st.reduced_tol_feas
        );
        let abs_g = round_allow(ev.terms, ev.mag_xpx + ev.mag_qtx + ev.mag_btz);
        ensure!(
            lt_tol(ev.gap_abs, st.reduced_tol_gap_abs, abs_g) || lt_tol(ev.gap_rel, st.reduced_tol_gap_rel, abs_g),
            "almostsolved-gap",
            "gap_abs {:e} gap_rel {:e}",
            ev.gap_abs,
            ev.gap_rel
        );
    }
    if matches!(r.status, SolverStatus::AlmostPrimalInfeasible | SolverStatus::AlmostDualInfeasible) {
        // with the observer's final kappa the documented reduced test can be re-evaluated in full
        if let Some(last) = r.iters.last() {
            if last.kappa.is_finite() && last.kappa > 0.0 && (last.kappa / last.tau - r.info.ktratio).abs() <= 1e-9 * r.info.ktratio.abs() {
                certificate_tests(r.status == SolverStatus::AlmostPrimalInfeasible, p, r, &ev, &skip, last.kappa, st.reduced_tol_infeas_abs, st.reduced_tol_infeas_rel, "almost-")?;
            }
        }
    }
    if r.status == SolverStatus::AlmostPrimalInfeasible {
        ensure!(ev.btz < round_allow(ev.terms, ev.mag_btz), "almostpinf-btz-not-negative", "b'z={}", ev.btz);
        // scale-free necessary condition of the documented reduced test
        let (mz, cz) = worst_margin(&p.cones, &r.z, true, &skip);
        ensure!(mz >= -1e-9, "almostpinf-z-outside-dual-cone", "cone #{} margin {:e}", cz, mz);
    }
    if r.status == SolverStatus::AlmostDualInfeasible {
        ensure!(ev.qtx < round_allow(ev.terms, ev.mag_qtx), "almostdinf-qtx-not-negative", "q'x={}", ev.qtx);
        let (ms, cs) = worst_margin(&p.cones, &r.s, false, &skip);
        ensure!(ms >= -1e-9, "almostdinf-s-outside-cone", "cone #{} margin {:e}", cs, ms);
    }
    Ok(())
}
