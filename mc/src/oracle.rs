//! Independent oracles: cone membership by the textbook definitions and the KKT /
//! termination-test evaluator on the *user's* data.
#![allow(dead_code)]

use crate::dense::*;
use crate::problem::*;

/// signed margin of `v` w.r.t. the primal cone (>=0 inside the closed cone, <0 outside);
/// the number is on the scale of the entries of v.
pub fn margin_primal(c: &ConeSpec, v: &[f64]) -> f64 {
    match c {
        ConeSpec::Zero(_) => -norm_inf(v),
        ConeSpec::NN(_) => v.iter().cloned().fold(f64::INFINITY, f64::min),
        ConeSpec::SOC(k) => {
            if *k == 0 {
                f64::INFINITY
            } else {
                v[0] - norm2(&v[1..])
            }
        }
        ConeSpec::PSD(k) => {
            if *k == 0 {
                return f64::INFINITY;
            }
            let m = svec_to_mat(v, *k);
            sym_eigvals(&m)[0]
        }
        ConeSpec::Exp => {
            let (x, y, z) = (v[0], v[1], v[2]);
            if y > 0.0 {
                f64::min(z - y * (x / y).exp(), y)
            } else if y == 0.0 {
                // the face {(x,0,z): x<=0, z>=0} belongs to the closure but is never interior
                f64::min(f64::min(-x, z), 0.0)
            } else {
                y
            }
        }
        ConeSpec::Pow(a) => {
            let (x, y, z) = (v[0], v[1], v[2]);
            if x < 0.0 || y < 0.0 {
                f64::min(x, y)
            } else {
                f64::min(f64::min(x, y), x.powf(*a) * y.powf(1.0 - a) - z.abs())
            }
        }
        ConeSpec::GenPow(a, _d) => {
            let d1 = a.len();
            let xmin = v[..d1].iter().cloned().fold(f64::INFINITY, f64::min);
            if xmin < 0.0 {
                xmin
            } else {
                let prod: f64 = (0..d1).map(|i| v[i].powf(a[i])).product();
                f64::min(xmin, prod - norm2(&v[d1..]))
            }
        }
    }
}

/// signed margin w.r.t. the dual cone
pub fn margin_dual(c: &ConeSpec, v: &[f64]) -> f64 {
    match c {
        ConeSpec::Zero(_) => f64::INFINITY,
        ConeSpec::NN(_) | ConeSpec::SOC(_) | ConeSpec::PSD(_) => margin_primal(c, v),
        ConeSpec::Exp => {
            let (u, vv, w) = (v[0], v[1], v[2]);
            if u < 0.0 {
                // -u e^{v/u} <= e w
                f64::min(std::f64::consts::E * w + u * (vv / u).exp(), -u)
            } else if u == 0.0 {
                // the face {(0,v,w): v,w>=0} belongs to the closure but is never interior
                f64::min(f64::min(vv, w), 0.0)
            } else {
                -u
            }
        }
        ConeSpec::Pow(a) => {
            let (u, vv, w) = (v[0], v[1], v[2]);
            if u < 0.0 || vv < 0.0 {
                f64::min(u, vv)
            } else {
                f64::min(f64::min(u, vv), (u / a).powf(*a) * (vv / (1.0 - a)).powf(1.0 - a) - w.abs())
            }
        }
        ConeSpec::GenPow(a, _d) => {
            let d1 = a.len();
            let xmin = v[..d1].iter().cloned().fold(f64::INFINITY, f64::min);
            if xmin < 0.0 {
                xmin
            } else {
                let prod: f64 = (0..d1).map(|i| (v[i] / a[i]).powf(a[i])).product();
                f64::min(xmin, prod - norm2(&v[d1..]))
            }
        }
    }
}

/// worst relative margin over a cone list: min over cones of margin/max(1,||block||)
pub fn worst_margin(cones: &[ConeSpec], v: &[f64], dual: bool, skip: &[bool]) -> (f64, usize) {
    let mut worst = f64::INFINITY;
    let mut which = 0;
    let mut off = 0;
    for (ci, c) in cones.iter().enumerate() {
        let k = c.numel();
        let blk = &v[off..off + k];
        // rows marked skip (dropped by presolve) only occur in NN cones: judge the kept entries
        let m = if skip[off..off + k].iter().any(|b| *b) {
            let kept: Vec<f64> = (0..k).filter(|i| !skip[off + i]).map(|i| blk[i]).collect();
            if kept.is_empty() {
                f64::INFINITY
            } else {
                kept.iter().cloned().fold(f64::INFINITY, f64::min) / f64::max(1.0, norm2(&kept))
            }
        } else if k == 0 {
            f64::INFINITY
        } else {
            let mm = if dual { margin_dual(c, blk) } else { margin_primal(c, blk) };
            mm / f64::max(1.0, norm2(blk))
        };
        if m < worst {
            worst = m;
            which = ci;
        }
        off += k;
    }
    (worst, which)
}

#[derive(Clone, Debug, Default)]
pub struct KktEval {
    pub pcost: f64,
    pub dcost: f64,
    pub gap_abs: f64,
    pub gap_rel: f64,
    pub res_primal: f64,
    pub res_dual: f64,
    // unnormalised pieces
    pub norm_rp: f64,  // ||Ax+s-b||_2 over kept rows
    pub norm_rd: f64,  // ||Px+A'z+q||_2
    pub norm_atz: f64, // ||A'z||_2
    pub norm_px: f64,
    pub norm_axs: f64, // ||Ax+s||_2 over kept rows
    pub btz: f64,
    pub qtx: f64,
    pub normx: f64,
    pub norms: f64,
    pub normz: f64,
    pub normb_inf: f64,
    pub normq_inf: f64,
    pub xpx: f64,
    // magnitudes of the summed terms (for principled rounding allowances)
    pub mag_btz: f64,
    pub mag_qtx: f64,
    pub mag_xpx: f64,
    pub mag_rp: f64,  // 2-norm of rowwise sum |A_ij x_j| + |s_i| + |b_i|
    pub mag_rd: f64,  // 2-norm of rowwise sum |P_ij x_j| + |A_ij z_i| + |q_j|
    pub mag_atz: f64, // 2-norm of rowwise sum |A_ij z_i|
    pub mag_px: f64,
    pub mag_axs: f64,
    pub terms: f64, // n + m + 2
}

/// floating-point evaluation allowance: two independent evaluations (the solver's, on
/// equilibrated data, and the oracle's) of a sum of `terms` products of total magnitude `mag`
pub fn round_allow(terms: f64, mag: f64) -> f64 {
    4.0 * (terms + 2.0) * 1.12e-16 * mag
}

/// evaluate everything the documented termination tests use, on the user's data.
/// `skip[i]` marks rows removed by the presolver (excluded from residuals and norms).
pub fn kkt_eval(p: &Prob, x: &[f64], s: &[f64], z: &[f64], skip: &[bool]) -> KktEval {
    let (n, m) = (p.n, p.m);
    let px = p.p.mulvec(x);
    let xpx = dot2(x, &px);
    let ax = p.a.mulvec(x);
    let mut rp = vec![];
    let mut axs = vec![];
    let mut sk = vec![];
    let mut zk = vec![];
    let mut bk = vec![];
    for i in 0..m {
        if !skip[i] {
            rp.push(ax[i] + s[i] - p.b[i]);
            axs.push(ax[i] + s[i]);
            sk.push(s[i]);
            zk.push(z[i]);
            bk.push(p.b[i]);
        }
    }
    let zz: Vec<f64> = (0..m).map(|i| if skip[i] { 0.0 } else { z[i] }).collect();
    let atz = p.a.tmulvec(&zz);
    let rd: Vec<f64> = (0..n).map(|j| px[j] + atz[j] + p.q[j]).collect();
    let qtx = dot2(&p.q, x);
    let btz = dot2(&bk, &zk);
    let pcost = 0.5 * xpx + qtx;
    let dcost = -btz - 0.5 * xpx;
    let gap_abs = (pcost - dcost).abs();
    let gap_rel = gap_abs / f64::max(1.0, f64::min(pcost.abs(), dcost.abs()));
    let normx = norm2(x);
    let norms = norm2(&sk);
    let normz = norm2(&zk);
    let normb_inf = norm_inf(&bk);
    let normq_inf = norm_inf(&p.q);
    let absx: Vec<f64> = x.iter().map(|v| v.abs()).collect();
    let absz: Vec<f64> = zz.iter().map(|v| v.abs()).collect();
    let mut pabs = p.p.clone();
    for v in pabs.a.iter_mut() {
        *v = v.abs();
    }
    let mut aabs = p.a.clone();
    for v in aabs.a.iter_mut() {
        *v = v.abs();
    }
    let pax = pabs.mulvec(&absx);
    let aax = aabs.mulvec(&absx);
    let aaz = aabs.tmulvec(&absz);
    let mag_rp_v: Vec<f64> = (0..m).filter(|i| !skip[*i]).map(|i| aax[i] + s[i].abs() + p.b[i].abs()).collect();
    let mag_axs_v: Vec<f64> = (0..m).filter(|i| !skip[*i]).map(|i| aax[i] + s[i].abs()).collect();
    let mag_rd_v: Vec<f64> = (0..n).map(|j| pax[j] + aaz[j] + p.q[j].abs()).collect();
    KktEval {
        mag_btz: bk.iter().zip(&zk).map(|(a, b)| (a * b).abs()).sum(),
        mag_qtx: p.q.iter().zip(x).map(|(a, b)| (a * b).abs()).sum(),
        mag_xpx: dot(&absx, &pax),
        mag_rp: norm2(&mag_rp_v),
        mag_rd: norm2(&mag_rd_v),
        mag_atz: norm2(&aaz),
        mag_px: norm2(&pax),
        mag_axs: norm2(&mag_axs_v),
        terms: (n + m + 2) as f64,
        pcost,
        dcost,
        gap_abs,
        gap_rel,
        res_primal: norm2(&rp) / f64::max(1.0, normb_inf + normx + norms),
        res_dual: norm2(&rd) / f64::max(1.0, normq_inf + normx + normz),
        norm_rp: norm2(&rp),
        norm_rd: norm2(&rd),
        norm_atz: norm2(&atz),
        norm_px: norm2(&px),
        norm_axs: norm2(&axs),
        btz,
        qtx,
        normx,
        norms,
        normz,
        normb_inf,
        normq_inf,
        xpx,
    }
}

/// the rows an enabled presolver must drop: entries of *nonnegative* rows (after the
/// documented collapse of singleton SOC/PSD cones into nonnegative ones) with b >= bound
pub fn expected_dropped(cones: &[ConeSpec], b: &[f64], bound: f64, presolve: bool) -> Vec<bool> {
    let mut out = vec![false; b.len()];
    if !presolve {
        return out;
    }
    let thresh = (1.0 - 10.0 * f64::EPSILON) * bound;
    let mut off = 0;
    for c in cones {
        let k = c.numel();
        let nnlike = matches!(c, ConeSpec::NN(_)) || matches!(c, ConeSpec::SOC(1)) || matches!(c, ConeSpec::PSD(1));
        if nnlike {
            for i in 0..k {
                if b[off + i] > thresh {
                    out[off + i] = true;
                }
            }
        }
        off += k;
    }
    out
}
