#!/usr/bin/env python3
"""Regenerates MANIFEST.json from the table below (single source of truth)."""
import json, subprocess

CHECKS = {
 # id: (technique, level text, level note, design_ref)
 "C12": ("bounded-exhaustive enumeration (all symmetric patterns n<=5 x all permutations x all D-sign vectors x 5 value/regularisation variants; every vector in {0..n}^n as perm; all small encodings; all update/scale/offset/refactor histories to depth 4) on the real QDLDLFactorisation, backward-error oracle in dense arithmetic + exact rational zero-pivot oracle",
         "Every case in the stated bound is factored, solved and (for histories) refactored by the real public clarabel::qdldl API; each result is judged from the returned L, D, Dinv, perm, inertia and counts against PAP'=LDL' elementwise with a 64*n*eps*|L||D||L'| bound, the regularisation rule, bitwise equality of refactor vs. fresh factorisation, and mandatory errors for every invalid permutation / structure / exactly-zero pivot.",
         "dense reference arithmetic in mc/src/props/c12.rs is trusted; growth is bounded by construction (diagonally dominant or +-1 data); n<=40 random matrices only as a labelled sampling supplement",
         "DESIGN.md §5 C12"),
 "C16": ("bounded-exhaustive enumeration of all small matrices / triplet sequences / raw CSC encodings / block tuples on the real CscMatrix code, dense reference oracle",
         "Every public CscMatrix operation is executed on every matrix up to 3x3 over {-1,0,1,2} and 4x3 over {-1,0,1} (thorough: {-1,0,1,2}), every triplet sequence up to length 4 (5) on a 3x3 grid, every raw encoding (n<=2, nnz<=3; thorough n<=3, nnz<=4) and every pair/quad of small blocks; results compared exactly with a dense reference and an independent canonical-form predicate. This is the bound the property itself names.",
         "dense reference + canonical predicate in mc/src/dense.rs are trusted; integer data so comparisons are exact; larger random shapes only as a labelled sampling supplement",
         "DESIGN.md §5 C16"),
}

NOT_APPLICABLE_REASONS = {}
ALL_IDS = ["C%02d" % i for i in range(1, 21)]
NOT_APPLICABLE = [{"property_id": i, "reason": NOT_APPLICABLE_REASONS.get(i, "check not built yet (planned with the model-checking design of DESIGN.md §5; not claimed until its explorer exists and passes on the unchanged tree)")} for i in ALL_IDS if i not in CHECKS]

def main():
    hooks_commits = subprocess.run(["git","-C","/repo","log","--format=%h %s"],capture_output=True,text=True).stdout.splitlines()
    hook_commits = [l.split()[0] for l in hooks_commits if l.split(" ",1)[1].startswith("verif hooks")]
    checks=[]
    for pid,(tech,text,note,ref) in sorted(CHECKS.items()):
        checks.append({
            "property_id": pid,
            "quick_cmd": f"./check {pid} quick",
            "thorough_cmd": f"./check {pid} thorough",
            "evidence_file": f"/verif/evidence/{pid}.json",
            "replay_cmd_template": f"./check {pid} replay {{path}}",
            "engine": "clmc",
            "level_claimed": {"category":"model_checking","text":text,"design_ref":ref},
            "level_note": note,
            "technique": tech,
        })
    man = {
        "version": 1,
        "setup_cmd": "./check build",
        "hooks": {
            "guard": "cargo feature `verif` of the clarabel crate",
            "enable": "the harness crate /verif/mc depends on clarabel by path with features [verif, serde, sdp, blas-src, lapack-src, faer-sparse]; ./check rebuilds it from /repo's working tree before every run",
            "baseline_off_cmd": "cd /repo && (cargo nextest run --workspace --no-fail-fast --tool-config-file pb:/w/lib/nextest.toml --profile pb --test-threads 8 --offline || cargo test --workspace --no-fail-fast --offline)",
            "source_commits": hook_commits,
            "add_only": True,
        },
        "engines": [
            {"name":"clmc","path":"/verif/mc","serves_properties":sorted(CHECKS.keys()),
             "kind_free_text":"Rust explorer linked against the real crate: sharded exhaustive enumeration of finite case spaces (inputs, configurations, operation histories, fault schedules, thread interleavings) with independent dense/reference oracles; stateright for explicit-state search with de-duplication"},
        ],
        "checks": checks,
        "not_applicable": NOT_APPLICABLE,
        "notes": "Exit codes: 0 held, 1 VIOLATION, 2 machinery failure. Known findings: /verif/known_findings.json. Seeded mutants: /verif/seeded/.",
    }
    json.dump(man, open("/verif/MANIFEST.json","w"), indent=1)
    print("wrote MANIFEST.json with", len(checks), "checks")

if __name__ == "__main__":
    main()
