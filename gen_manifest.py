#!/usr/bin/env python3
"""Regenerates MANIFEST.json from the table below (single source of truth)."""
import json, subprocess

CHECKS = {
 # id: (technique, level text, level note, design_ref)
 "C01": ("bounded-exhaustive enumeration of inputs x configurations on the real DefaultSolver: all tiny programs (n<=2, m<=3, data in {-1,0,1}, P menu, full/triu) per cone list + planted strictly-feasible instances with <=1 (thorough <=2) data deviations, crossed with a <=1 (thorough <=2) deviation settings lattice incl. qdldl/faer backends; independent KKT/cone oracle on the user's data",
         "Every program of the enumerated families is constructed and solved through the public API under every settings point inside the deviation bound (about 1e7 solves quick); whenever the verdict is Solved the returned (x,s,z) are re-evaluated on the user's P,q,A,b,cones with the documented termination test and textbook cone predicates. Exhaustive within the stated lattice, so a defect that needs a particular degenerate shape/sign pattern/configuration inside it cannot hide.",
         "cone-membership and KKT evaluator in mc/src/oracle.rs are trusted; comparisons carry a 1e-6 relative slack plus the floating-point evaluation allowance 4(n+m+4)u*sum|terms|; PSD cones run on the harness's self-checking plain-Rust BLAS/LAPACK shims; decides the property for the enumerated lattice of problems/settings only", "DESIGN.md §5 C01"),
 "C02": ("same exhaustive sweep as C01; oracle fires on PrimalInfeasible/DualInfeasible verdicts and re-evaluates the documented certificate test at the solver's scale using the final (tau,kappa) from the guarded iterate observer (cross-validated against public info.ktratio and variables.tau)",
         "Every infeasibility verdict reached in the enumerated space (about 3e6 of 1e7 solves in quick) must carry NaN objectives, a certificate vector in the right cone, strict sign of b'z / q'x and the documented relative test recomputed from the returned vector and the user's data; certificates left in scaled coordinates or normalised by the wrong scalar fail.",
         "cone-membership and KKT evaluator in mc/src/oracle.rs are trusted; comparisons carry a 1e-6 relative slack plus the floating-point evaluation allowance 4(n+m+4)u*sum|terms|; PSD cones run on the harness's self-checking plain-Rust BLAS/LAPACK shims; decides the property for the enumerated lattice of problems/settings only; the observer hook H3 is trusted after its cross-check", "DESIGN.md §5 C02"),
 "C03": ("same exhaustive sweep as C01 (all terminal statuses that arise, incl. Almost*, MaxIterations, NumericalError, InsufficientProgress) + max_iter cut-offs; oracle recomputes objectives, normalised residuals, lengths and iteration bound from the returned vectors",
         "For every execution in the enumerated space the reported obj_val, obj_val_dual, r_prim, r_dual, iterations, status and vector lengths are compared with an independent recomputation from the returned x,s,z and the user's data; Almost* verdicts are checked against the reduced tolerances on the returned point.",
         "cone-membership and KKT evaluator in mc/src/oracle.rs are trusted; comparisons carry a 1e-6 relative slack plus the floating-point evaluation allowance 4(n+m+4)u*sum|terms|; PSD cones run on the harness's self-checking plain-Rust BLAS/LAPACK shims; decides the property for the enumerated lattice of problems/settings only", "DESIGN.md §5 C03"),
 "C04": ("same exhaustive sweep as C01 with a panic/termination oracle + exhaustive off-by-one dimension mutations (documented construction panic expected)",
         "Every enumerated well-formed program (incl. m=0, empty cones, singleton SOC/PSD, zero rows/columns, duplicate rows, 1e+-6 scalings) must construct and solve without panicking, end in a terminal status and respect max_iter; every single off-by-one dimension inconsistency must be rejected by the documented assertion.",
         "cone-membership and KKT evaluator in mc/src/oracle.rs are trusted; comparisons carry a 1e-6 relative slack plus the floating-point evaluation allowance 4(n+m+4)u*sum|terms|; PSD cones run on the harness's self-checking plain-Rust BLAS/LAPACK shims; decides the property for the enumerated lattice of problems/settings only; hangs are bounded by max_iter (checked) and the per-space wall-clock cap", "DESIGN.md §5 C04"),
 "C06": ("complete enumeration of the planted strictly-feasible family (every cone list of <=2 atoms/<=6 rows [thorough <=3/<=8] from a 19-atom alphabet x every x* in {-1,0,1}^n x 2 s* x 2 z* x 3 A patterns x P menu x full/triu) and of a block-replicated extension up to n=60 on the real solver with default settings; aggregate oracle computed exactly over the enumerated family",
         "Because the family is enumerated completely (6.2e5 instances in quick), the Solved fraction and the iteration quantiles are exact numbers, compared with constant envelopes (Solved >= 99.5%, p95 <= 20, p99.9 <= 40 iterations); an infeasibility verdict on any strictly feasible planted instance is an immediate violation.",
         "decides the distributional property for the enumerated lattice family only, not for the random generator of the property text (random dense data of size 60 is outside any exhaustive bound); envelopes fixed from the unchanged tree (measured 99.94%, 14, 23)", "DESIGN.md §5 C06"),
 "C07": ("exhaustive enumeration of base problems (planted family + every single data deviation, 7 cone lists incl. exp/pow/genpow/PSD) x step-rule settings; for each, one long run observed through the guarded iterate observer and then every prefix budget max_iter = 0..K on the real solver; interiority oracle on every internal iterate + bitwise prefix equality",
         "On every observed iterate of every run (2.4e7 iterates in quick) tau>0, kappa>0, s in int K and z in int K* by independent predicates, accepted steps lie in (0, max_step_fraction]; for every k the internal iterate of the max_iter=k run equals the k-th iterate of the long run bit for bit and a pure budget stop returns exactly that iterate un-scaled.",
         "interiority margin 1e-12 relative; iterates are read through hook H3; both scaling strategies occur through the cone lists (GenPow: dual only; Exp/Pow: primal-dual with fallback)", "DESIGN.md §5 C07"),
 "C08": ("explicit enumeration of all operation histories over a 35-letter alphabet of update forms (whole vector, matrix, 1- and 2-entry index/value, empty, wrong length, out-of-range index, pattern mismatch, update_data good/bad, solve) to depth 3 (thorough 4) on 4 initial problems x equilibration on/off + presolve-active variant; reference model = four plain arrays; state oracle after every operation + differential against a freshly built solver after the final solve",
         "Every history in the bound is replayed on a fresh real solver; after each operation the result (Ok/Err) is compared with the model's expectation, the internal P,q,A,b are compared entry for entry with the re-scaled model and the KKT copies of P and A bit for bit (guarded snapshot), rejected whole/matrix updates must leave data untouched, and the closing solve must agree with a freshly built solver on the model data (verdict class, objectives) and pass the C01 and C03 oracles for that data.",
         "value sets are two per component; fresh-vs-updated agreement to 1e-6 relative; a component partially written by a rejected index/value update is treated as unspecified until its next whole update", "DESIGN.md §5 C08"),
 "C09": ("bounded-exhaustive enumeration of all placements of infinity-like right-hand sides (5 values per row) over all cone lists of <=3 atoms / <=4 rows (thorough <=6) x presolve on/off x equilibrate on/off, plus all set_infinity/default_infinity/build/solve histories to depth 4 (thorough 6) in a dedicated serial process; independent drop-set oracle + bitwise differential against a hand-reduced, hand-capped fresh solver",
         "Every placement and every history in the bound is executed on the real crate; the rows to drop are computed independently from b and the cone list (bound in force at build), dropped rows must come back as z=0, s=bound with the user's length and ordering, the internal b must be capped/reduced exactly, and the kept entries, status, iterations and objectives must equal bit for bit those of a solver built on the hand-reduced problem, which in turn is judged by the C01 oracle when it claims Solved.",
         "reference built with presolve disabled (and the module bound parked at 1e300 in histories); threshold values keep clear of the 10-eps contraction", "DESIGN.md §5 C09"),
 "C10": ("bounded-exhaustive enumeration of all sparsity patterns x row/column magnitude assignments (1e-15..1e15) x P menu x cone lists x equilibrate_* settings on the real DefaultSolver::new; entry-for-entry oracle on the public data/equilibration fields",
         "Every enumerated problem (about 2e7 in quick) is constructed by the real constructor and the internal data are compared entry for entry with c*D*P*D, E*A*D, c*D*q, E*b of the user's data, together with the cumulative scaling bounds, reciprocals, unit scaling of all-zero rows/columns in scalar cones, constancy of E on every non-scalar cone and bitwise untouched data when disabled.",
         "relative 1e-13 on entries, 64-ulp slack on bounds, 8-ulp spread allowed for E on a non-scalar cone (see DESIGN.md false-alarm log)", "DESIGN.md §5 C10"),
 "C11": ("exhaustive enumeration of every sparsity pattern of P (upper triangle, with/without diagonal entries) and A x cone lists (<=2 atoms [thorough 3] incl. dense and sparse-expanded SOC, GenPow, Exp, PSD, empty cones) x both triangles through the real assemble_kkt_matrix, and of lattice scaling points (s,z,mu) on the real DirectLDLKKTSolver::update; oracle: entry-by-entry map/coordinate check, disjoint cover of all entries, dense Schur elimination of the auxiliary block vs the cones' mul_Hs, inertia by Jacobi eigenvalues",
         "Every user entry must sit at the recorded index and coordinate, the diagonal must be complete, the maps must partition the matrix, the sign vector must equal the documented pattern and the inertia of the regularised matrix; after each scaling update eliminating the auxiliary variables must give exactly -H as applied by the cones, different cones must not be coupled, and the stored copy must equal the user's P and A bit for bit (no regularisation left).",
         "distinct prime values identify entries; Schur-vs-operator tolerance 1e-12 relative per cone block (largest observed ratio 7e-4); near-singular inertia cases skipped", "DESIGN.md §5 C11"),
 "C12": ("bounded-exhaustive enumeration (all symmetric patterns n<=5 x all permutations x all D-sign vectors x 5 value/regularisation variants; every vector in {0..n}^n as perm; all small encodings; all update/scale/offset/refactor histories to depth 4) on the real QDLDLFactorisation, backward-error oracle in dense arithmetic + exact rational zero-pivot oracle",
         "Every case in the stated bound is factored, solved and (for histories) refactored by the real public clarabel::qdldl API; each result is judged from the returned L, D, Dinv, perm, inertia and counts against PAP'=LDL' elementwise with a 64*n*eps*|L||D||L'| bound, the regularisation rule, bitwise equality of refactor vs. fresh factorisation, and mandatory errors for every invalid permutation / structure / exactly-zero pivot.",
         "dense reference arithmetic in mc/src/props/c12.rs is trusted; growth is bounded by construction (diagonally dominant or +-1 data); n<=40 random matrices only as a labelled sampling supplement",
         "DESIGN.md §5 C12"),
 "C20": ("exhaustive enumeration of the planted(+<=1 deviation)/tiny-program families x settings lattice (incl. max_iter cut-offs and both LDL backends) with the real solver printing to a buffer, a stream and a file (and to the real stdout of a child process on a sub-lattice), verbose on and off; byte comparison + full parse of the output against the returned solution and an independently computed header truth",
         "For every case (3.3e5 in quick, 6 solves each) verbose-off must deliver zero bytes to every target; buffer, stream, file (and stdout) bytes must be identical after masking the one wall-clock field; the table must parse, its iteration column must start at 0, never decrease and end at solution.iterations; the last row and the footer must agree with the returned solution to printed precision; and the configuration header must state the true internal dimensions, nnz, collapsed/reduced cone list, presolve count, backend and settings.",
         "statuses needing injected faults are covered by the fault-schedule spaces; stdout is compared on a sub-lattice only", "DESIGN.md §5 C20"),
 "C19": ("exhaustive enumeration of round trips (31 problems covering every cone variant, empty and extreme data x presolve-reduction active/inactive x settings override x every settings field changed one (thorough: two) at a time) and exhaustive single-site fault enumeration on saved files (every truncation length, every single-byte deletion, every single-byte substitution from a 16-character menu) against the real save_to_file/load_from_file",
         "Each saved file is parsed independently and compared with the user's originals (exactly with equilibration off, 4 ulp otherwise), loaded settings must equal the saved ones field by field (infinite time_limit included), an override must win, and the loaded solver must reach the same verdict/objective; every one of about 6e4 faulted files per run must yield Err or an internally consistent, usable solver - never a panic or hang.",
         "faults are single-site; a faulted file that is still a well-formed problem is accepted if consistent; solves after a fault are only demanded when the settings are unchanged", "DESIGN.md §5 C19"),
 "C13": ("exhaustive enumeration of all pairs (s,z) from an interior-point lattice (3 directions x boundary distances {1,1e-2,1e-4,1e-8} x magnitudes {1,1e-6,1e6}) for NN(1,3), SOC(2..6) on both sides of the sparse-expansion threshold and PSD(1..3) [thorough adds NN6, SOC9, SOC17, PSD4], driving the real cone objects; every identity of the property checked on all basis vectors and two dense vectors",
         "For every lattice pair the real update_scaling/mul_W/mul_Winv/mul_Hs/get_Hs/circ_op/lambda_inv_circ_op/affine_ds/combined_ds_shift/ds_from_dz_offset are executed and compared with the identities W z = W^-T s = lambda, W'W z = s, W^-1 W = I, <Wx,y> = <x,W'y>, block == operator (dense, diagonal and D+uu'-vv' sparse form), and the textbook Jordan algebra written independently in the harness.",
         "relative tolerance 2e-12 amplified by the known conditioning 1/(sqrt(ds dz) sqrt(min(ds,dz))) of the lattice point; PSD on the harness BLAS shims", "DESIGN.md §5 C13"),
 "C14": ("exhaustive enumeration of all (z, s, mu) triples of an interior-point lattice (magnitudes x boundary fractions {0,+-.5,+-.99,1-1e-6} x skews) and of all vectors over {-2,-.5,0,.5,2}^n for the real Exponential/Power/GenPower cone objects; oracle = the dual barriers written once in the harness on nested dual numbers (exact first, second and mixed third derivatives)",
         "For every lattice triple the crate's barrier value, stored gradient and Hessian, third-order correction, primal gradient (conjugacy Df*(-g(s)) = -s, <s,g> = -nu), dual scaling (exactly mu*H), primal-dual scaling (symmetric, positive definite, Hs z = s, Hs z~ = s~, or the documented fallback), get_Hs/mul_Hs and the starting point are compared with automatic derivatives of the mathematical definition; membership predicates are compared with textbook definitions on interior, exterior and boundary points.",
         "tolerances scale with the known relative boundary distance of the lattice point; exponents alpha in {0.1,0.25,0.5} and two alpha-vectors in quick, more in thorough; crate-private calculus reached through hook H2c", "DESIGN.md §5 C14"),
 "C15": ("exhaustive enumeration over the real cone objects of every (interior point, direction, direction magnitude, alpha_max[, backtracking settings]) combination of a lattice: NN/SOC/PSD (exact-distance oracle by bisection on independent margins), Exp/Pow/GenPow (backtracking-trial oracle), composite cones (safety, cap, one-factor tightness), plus margins/scaled_unit_shift/shift-to-interior on arbitrary vectors",
         "Each returned step length is taken and the resulting point judged by textbook membership; it must not exceed alpha_max (nor max_step_fraction for composite cones with nonsymmetric members); for symmetric cones it must equal the exact distance to the boundary found independently (to 1e-7/sqrt(delta)); for nonsymmetric cones it must be a backtracking trial whose predecessor was outside; initialisation shifts must land strictly inside.",
         "directions: zero, radial out/in, dense, boundary-grazing, tangent, +-basis, x magnitudes {1e-3,1,1e3}; PSD via harness BLAS shims; the composite oracle is order-agnostic because the property does not fix the member order (see DESIGN.md note on the inverted symmetric/nonsymmetric pass order)", "DESIGN.md §5 C15"),
 "C16": ("bounded-exhaustive enumeration of all small matrices / triplet sequences / raw CSC encodings / block tuples on the real CscMatrix code, dense reference oracle",
         "Every public CscMatrix operation is executed on every matrix up to 3x3 over {-1,0,1,2} and 4x3 over {-1,0,1} (thorough: {-1,0,1,2}), every triplet sequence up to length 4 (5) on a 3x3 grid, every raw encoding (n<=2, nnz<=3; thorough n<=3, nnz<=4) and every pair/quad of small blocks; results compared exactly with a dense reference and an independent canonical-form predicate. This is the bound the property itself names.",
         "dense reference + canonical predicate in mc/src/dense.rs are trusted; integer data so comparisons are exact; larger random shapes only as a labelled sampling supplement",
         "DESIGN.md §5 C16"),
}

NOT_APPLICABLE_REASONS = {}
ALL_IDS = ["C%02d" % i for i in range(1, 21)]
NOT_APPLICABLE = [{"property_id": i, "reason": NOT_APPLICABLE_REASONS.get(i, "check not built yet (planned with the model-checking design of DESIGN.md §5; not claimed until its explorer exists and passes on the unchanged tree)")} for i in ALL_IDS if i not in CHECKS]

def main():
    hooks_commits = subprocess.run(["git","-C","/repo","log","--format=%h %s"],capture_output=True,text=True).stdout.splitlines()
    hook_commits = [l.split()[0] for l in hooks_commits if l.split(" ",1)[1].startswith("verif hooks")]
    checks=[]
    for pid,(tech,text,note,ref) in sorted(CHECKS.items()):
        checks.append({
            "property_id": pid,
            "quick_cmd": f"./check {pid} quick",
            "thorough_cmd": f"./check {pid} thorough",
            "evidence_file": f"/verif/evidence/{pid}.json",
            "replay_cmd_template": f"./check {pid} replay {{path}}",
            "engine": "clmc",
            "level_claimed": {"category":"model_checking","text":text,"design_ref":ref},
            "level_note": note,
            "technique": tech,
        })
    man = {
        "version": 1,
        "setup_cmd": "./check build",
        "hooks": {
            "guard": "cargo feature `verif` of the clarabel crate",
            "enable": "the harness crate /verif/mc depends on clarabel by path with features [verif, serde, sdp, blas-src, lapack-src, faer-sparse]; ./check rebuilds it from /repo's working tree before every run",
            "baseline_off_cmd": "cd /repo && (cargo nextest run --workspace --no-fail-fast --tool-config-file pb:/w/lib/nextest.toml --profile pb --test-threads 8 --offline || cargo test --workspace --no-fail-fast --offline)",
            "source_commits": hook_commits,
            "add_only": True,
        },
        "engines": [
            {"name":"clmc","path":"/verif/mc","serves_properties":sorted(CHECKS.keys()),
             "kind_free_text":"Rust explorer linked against the real crate: sharded exhaustive enumeration of finite case spaces (inputs, configurations, operation histories, fault schedules, thread interleavings) with independent dense/reference oracles; stateright for explicit-state search with de-duplication"},
        ],
        "checks": checks,
        "not_applicable": NOT_APPLICABLE,
        "notes": "Exit codes: 0 held, 1 VIOLATION, 2 machinery failure. Known findings: /verif/known_findings.json. Seeded mutants: /verif/seeded/.",
    }
    json.dump(man, open("/verif/MANIFEST.json","w"), indent=1)
    print("wrote MANIFEST.json with", len(checks), "checks")

if __name__ == "__main__":
    main()
