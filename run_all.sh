#!/bin/bash
# usage: ./run_all.sh [quick|thorough] [IDs...]   — runs the registered checks one after another, prints one line each
cd "$(dirname "$0")"
TIER="${1:-quick}"; shift
IDS="$@"; [ -z "$IDS" ] && IDS="C01 C02 C03 C04 C05 C06 C07 C08 C09 C10 C11 C12 C13 C14 C15 C16 C17 C18 C19 C20"
mkdir -p .build/logs
rc_all=0
for id in $IDS; do
  t0=$(date +%s)
  ./check $id $TIER > .build/logs/$id.$TIER.log 2>&1; rc=$?
  t1=$(date +%s)
  echo "$id $TIER exit=$rc $((t1-t0))s $(grep -c '^VIOLATION' .build/logs/$id.$TIER.log) violations :: $(grep -a 'tier:' .build/logs/$id.$TIER.log | tail -1 | cut -c1-200)"
  [ $rc -ne 0 ] && rc_all=1
done
exit $rc_all
